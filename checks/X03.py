"""X03 (growth) - the registration life-cycle and the legacy registry.KeyManager interface as a specification.

spec/sys/KeyManagerAPI.tla states, from the godoc of core/registry, internal/config, the internal registries and the
*_key_templates.go files: which type URLs have a key manager and what each manager answers (TypeURL / DoesSupport /
key material type / PrivateKeyManager / primitive class); which serialized key formats NewKeyData accepts (decision
table over KeyParams!ParamsOK plus the key generators' restrictions) and what an accepted call returns; the parameter
record behind every exported key template function; the registries as state machines (key managers: first
registration of a type URL wins; KMS clients: first registered client that supports the URI; configuration builder:
duplicate refused, Build() is a snapshot; internal global registries) and the per-class V0 configurations.

(M) MC_KeyManagerAPI: every history of up to 3 (quick) / 4 (thorough) operations over the four registries, invariants
    LookupSupports ("a lookup never returns a manager that does not support the URL"), FirstRegistrationWins,
    KmsFirstSupporting, ConfigIsSnapshot, ...; two fault configurations must violate their invariant.
(R) Plan_KeyManagerAPI: TLC writes the cases -- (key type x key-format record of KeyParams' domains incl. every
    single-field boundary mutation) with the WIRE form of the format (KeyFormatWire.tla, nothing of Tink involved),
    every exported template function (list extracted with go/parser and diffed against the table: unknown template =>
    exit 2), every operation history up to depth 3/4 plus sampled longer ones, (config class x key type) pairs.
    harness/cmd/x03 executes them on the REAL global registries.
(T) Trace_KeyManagerAPI judges every recorded outcome; negative control corrupts one logged field."""
import collections
import concurrent.futures as cf
import json
import os
import subprocess
import sys

sys.path.insert(0, os.path.join(os.path.dirname(os.path.dirname(os.path.abspath(__file__))), "lib"))
import vlib  # noqa: E402

# key types whose dense enumeration is large get a TLC process of their own (thorough tier)
FMT_GROUPS = [["AesCtrHmac"], ["AesCtrHmacStreaming"], ["Ecies", "RsaSsaPss", "Hmac"], None]
MANAGED = ["AesGcm", "AesCtrHmac", "AesGcmSiv", "ChaCha20Poly1305", "XChaCha20Poly1305", "XAesGcm", "AesSiv", "Hmac", "AesCmac",
           "HmacPrf", "HkdfPrf", "AesCmacPrf", "AesGcmHkdfStreaming", "AesCtrHmacStreaming", "Ecdsa", "Ed25519", "RsaSsaPkcs1",
           "RsaSsaPss", "MlDsa", "SlhDsa", "Hpke", "Ecies", "JwtHmac", "JwtEcdsa", "JwtRsaSsaPkcs1", "JwtRsaSsaPss", "JwtMlDsa",
           "PrfBasedDeriver"]

# as-built facts the specification records that no godoc states (evidence: observations)
OBSERVATIONS = [
    "RegisterKeyManager refuses ANY second registration of a type URL, also of the same manager object (godoc: 'Does not "
    "allow to overwrite existing key managers'); only primitiveregistry.RegisterPrimitiveConstructor accepts the same "
    "constructor twice",
    "composite ML-DSA has parsers, serializers and primitive constructors but no legacy key manager; X-AES-GCM and composite "
    "ML-DSA are in no internal/config V0 configuration",
    "the managers of JWT key types and of the PRF-based deriver refuse Primitive(); managers of public key types refuse "
    "NewKeyData/NewKey (no parameters parser under a public type URL)",
    "key generators (behind NewKeyData and keyset.Manager.Add) refuse valid parameters the primitives do not support: "
    "AES-GCM/AES-CTR-HMAC 24-byte AES keys, AES-SIV keys != 64 bytes, AES-CMAC(-PRF) keys != 32 bytes, HKDF-PRF keys < 32 "
    "bytes or hash not in {SHA256, SHA512}, streaming AEAD main keys not in {16, 32} bytes, AES-CTR-HMAC streaming with "
    "SHA1, RSA exponents != F4; an RSA-SSA-PSS format with salt length 0 parses but the generated key cannot be serialized",
    "the PRF-based deriver has no key deriver for AES-GCM-SIV (KeyParams!DeriverDerivable lists it)",
    "ECIES key formats: X25519 requires ec_point_format = COMPRESSED on the wire (parameters say 'unspecified'); the output "
    "prefix type of the nested DEM template is ignored",
    "keys without a primitive: ECIES over X25519 (parameters, key generation, serialization work; hybrid.NewHybridEncrypt/"
    "Decrypt and registry.Primitive fail with 'unsupported curve') and ECIES with an XChaCha20-Poly1305 DEM (allowed by "
    "ecies.NewParameters; 'unsupported AEAD DEM key type: *xchacha20poly1305.Parameters' from every primitive constructor)",
    "registry.NewKeyData ignores the template's output prefix type (managers always parse with RAW); the PRF-based "
    "deriver's manager takes the prefix type of the derived key template",
]


def repo_root():
    return os.environ.get("VERIF_REPO") or vlib.REPO


def tlc_plan(ctx, parts, types=None, tag=""):
    out = os.path.join(ctx.scratch, "cases.%s%s.ndjson" % (parts.replace(",", "_"), tag))
    env = dict(VERIF_CASES=out, VERIF_PARTS=parts)
    if types:
        env["VERIF_TYPES"] = ",".join(types)
    r = ctx.tlc("Plan_KeyManagerAPI", env=env, workers=1, timeout=1500, heap="4g", extra=("-seed", str(ctx.seed)))
    if not r.ok or not os.path.exists(out):
        raise vlib.Infra("Plan_KeyManagerAPI (%s) failed: %s" % (parts, r.error or r.out[-1500:]))
    return [x for x in open(out).read().splitlines() if x.strip()]


def plan(ctx):
    """spec -> Tink: all cases, written by TLC in parallel processes. Returns (path, counter by kind)."""
    jobs = [("mgr,unknown,pubfmt,tpl,cfgres,custom", None, ""), ("hist", None, "")]
    if ctx.thorough:
        big = [t for g in FMT_GROUPS if g for t in g]
        for i, g in enumerate(FMT_GROUPS):
            jobs.append(("fmt", g if g else sorted(set(MANAGED) - set(big)), ".%d" % i))
    else:
        jobs.append(("fmt", None, ""))
    path = os.path.join(ctx.scratch, "cases.ndjson")
    kinds = collections.Counter()
    fmt_types = collections.Counter()
    with cf.ThreadPoolExecutor(max_workers=len(jobs)) as ex, open(path, "w") as f:
        for ls in ex.map(lambda j: tlc_plan(ctx, *j), jobs):
            for x in ls:
                f.write(x + "\n")
                c = json.loads(x)
                kinds[c["c"] + (":" + c["part"] if c["c"] == "hist" else "")] += 1
                if c["c"] == "fmt":
                    fmt_types[c["kt"]] += 1
    if not kinds:
        raise vlib.Infra("Plan_KeyManagerAPI produced no cases")
    ctx.stage("R:Plan_KeyManagerAPI", cases=sum(kinds.values()), by_kind=dict(kinds), fmt_by_key_type=dict(fmt_types))
    ctx.log("plan: %d cases %s" % (sum(kinds.values()), dict(kinds)))
    return path, kinds


def template_inventory(ctx, cases):
    """The exported template functions of the repository (go/parser) against the specification's table and against the
    generated name -> function table of the driver."""
    tool = ctx.go_build("x03tpl")
    gen = os.path.join(ctx.scratch, "templates_gen.go")
    r = ctx.run([tool, "-repo", repo_root(), "-json", "-gen", gen])
    fns = json.loads(r.stdout)
    in_repo = {f["name"] for f in fns}
    in_spec = set()
    for x in open(cases):
        c = json.loads(x)
        if c["c"] == "tpl":
            in_spec.add(c["name"])
    if in_repo - in_spec:
        raise vlib.Infra("unknown key template function(s) in the library, not in KeyManagerAPI!TemplateTable: %s" % sorted(in_repo - in_spec))
    if in_spec - in_repo:
        raise vlib.Infra("KeyManagerAPI!TemplateTable names template function(s) the library does not export: %s" % sorted(in_spec - in_repo))
    committed = os.path.join(vlib.VERIF, "harness", "cmd", "x03", "templates_gen.go")
    if open(gen).read() != open(committed).read():
        raise vlib.Infra("harness/cmd/x03/templates_gen.go is out of date: regenerate with "
                         "`go run ./cmd/x03tpl -repo /repo -gen cmd/x03/templates_gen.go`")
    ctx.stage("R:template inventory", exported_template_functions=len(fns), with_arguments=sorted(f["name"] for f in fns if f["args"]))
    ctx.log("template inventory: %d exported template functions, all in the specification's table" % len(fns))
    return len(fns)


def model_check(ctx):
    cfgs = ["MC_KeyManagerAPI", "MC_KeyManagerAPI_reg", "MC_KeyManagerAPI_kms", "MC_KeyManagerAPI_cfg"] if ctx.thorough else ["MC_KeyManagerAPI_quick"]

    def one(cfg):
        # (vlib serializes multi-worker TLC runs machine-wide: only the all-registries configuration gets several workers)
        w = 1 if cfg[-4:] in ("_reg", "_kms", "_cfg") else (4 if ctx.thorough else 2)
        return ctx.model_check("MC_KeyManagerAPI", cfg, workers=w, heap="6g", timeout=3000, must_cover=False)

    def fault(cfg, inv):
        r = ctx.tlc("MC_KeyManagerAPI", cfg, workers=1, timeout=600)
        if r.invariant != inv:
            raise vlib.Infra("fault configuration %s must violate %s (got %s)" % (cfg, inv, r.summary()))
        ctx.stage("M:" + cfg, violated=inv, trace_len=r.trace_len)

    with cf.ThreadPoolExecutor(max_workers=6) as ex:
        futs = [ex.submit(one, c) for c in cfgs] + [ex.submit(fault, "MC_KeyManagerAPI_fault_register", "LookupSupports"),
                ex.submit(fault, "MC_KeyManagerAPI_fault_kms", "KmsFirstSupporting")]
        for f in futs:
            f.result()
    ctx.log("model checking: registries explored, both fault configurations rejected")


def who(e):
    return e.get("kt") or e.get("part") or e.get("name") or e.get("class") or e.get("url") or e.get("prefix") or ""


def signature(m):
    e, b = m["event"], m["bad"]
    extra = ""
    if e["ev"] == "tpl":
        extra = " " + e.get("name", "")
    detail = ""
    if b[0].startswith("no working primitive") and len(b) > 1:
        detail = " [%s]" % str(b[1])[:120]
    elif b[0].startswith("registry.Primitive and the keyset factory") and len(b) > 1:
        detail = " [%s]" % b[1]
    return "%s/%s%s: %s%s" % (e["ev"], who(e), extra, b[0], detail)


def slim(e):
    e = dict(e)
    c = e.pop("case", None)
    return e, c


def handle(ctx, mism):
    cov = [m for m in mism if str(m["bad"][0]).startswith("COVERAGE")]
    real = [m for m in mism if not str(m["bad"][0]).startswith("COVERAGE")]
    for m in real:
        ev, case = slim(m["event"])
        ctx.violation(signature(m), "%s (spec: %s)" % (m["bad"][0], m["bad"][1:]), dict(event=ev, case=case, spec_says=m["bad"]))
    if cov and not ctx.violations:
        m = cov[0]
        ev, case = slim(m["event"])
        raise vlib.Infra("model out of date (coverage expectation, not a verdict): %s; spec says %s; %d such; event %s"
                         % (m["bad"][0], m["bad"][1:], len(cov), json.dumps(ev)[:900]))


def corrupt(ev, rng):
    ev = json.loads(json.dumps(ev))
    k = ev["ev"]
    if k == "fmt" and not ev["km"]["err"]:
        c = rng.randrange(4)
        if c == 0:
            ev["km"]["material"] = "REMOTE"
            ev["_corrupted"] = "km.material"
        elif c == 1:
            ev["reg"]["url"] = ev["reg"]["url"] + "X"
            ev["_corrupted"] = "reg.url"
        elif c == 2:
            ev["km"]["eqWant"] = False
            ev["_corrupted"] = "km.eqWant"
        elif ev["prim"]["done"] and ev["prim"]["fk"]:
            ev["prim"]["fk"] = ("00" if not ev["prim"]["fk"].startswith("00") else "01") + ev["prim"]["fk"][2:]
            ev["_corrupted"] = "prim.fk"
        else:
            return None
        return ev
    if k == "fmt" and ev["km"]["err"] and not ev["case"]["ok"]:
        ev["km"]["err"] = ev["reg"]["err"] = False      # "accepted" a format with invalid parameters
        ev["_corrupted"] = "km.err"
        return ev
    if k == "hist" and ev["res"]:
        i = rng.randrange(len(ev["res"]))
        ev["res"][i] = "err" if ev["res"][i] != "err" else "ok"
        ev["_corrupted"] = "res[%d]" % i
        return ev
    if k == "tpl" and ev["found"]:
        c = rng.randrange(3)
        if c == 0:
            ev["prefix"] = "CRUNCHY" if ev["prefix"] != "CRUNCHY" else "TINK"
            ev["_corrupted"] = "prefix"
        elif c == 1:
            ev["h"]["idreq"] = "0badc0de"
            ev["_corrupted"] = "h.idreq"
        else:
            ev["nh"]["fk"] = "00"
            ev["_corrupted"] = "nh.fk"
        return ev
    if k == "mgr" and ev["found"]:
        ev["supports"] = ev["supports"] + [ev["url"] + "x"]
        ev["_corrupted"] = "supports"
        return ev
    if k == "custom" and ev["ct"]:
        ev["ct"] = ev["ct"][2:]
        ev["_corrupted"] = "ct"
        return ev
    return None


def run(ctx):
    ctx.cov["rule"] = ("TLC enumerates: every manager type URL; per key type the dependent product of the documented key-format "
                       "field values (KeyParams!Good, integer ranges thinned in the quick tier) plus every single-field boundary "
                       "mutation (KeyParams!Edge), written as protobuf wire fields from KeyFormatWire.tla; every exported key "
                       "template function; every operation history up to depth 3 (quick) / 4 (thorough) on the key-manager "
                       "registry, KMS client list, configuration builder and five internal registries, plus seeded samples of "
                       "longer histories; every (V0 configuration class, key type, key kind)")
    ctx.assumptions += [
        "the parameter record of a key template function is read from its godoc and Tink's published template of that name",
        "expected parameters are built from the specification's record with the REAL parameters constructors "
        "(harness/keyfactory) and compared with Tink's Equal; C12 checks Equal and the serializers on their own",
        "which valid formats the key generators refuse (GenOK), which URLs have managers and which key types a V0 "
        "configuration holds are as-built tables: a disagreement is exit 2 (model out of date), not a violation",
    ]
    ctx.cov["observations"] = OBSERVATIONS
    drv = ctx.go_build("x03")
    if ctx.replay:
        tr = os.path.join(ctx.scratch, "replay.ndjson")
        ctx.run([drv, "-replay", ctx.replay, "-out", tr], timeout=1200)
        mism, n = ctx.validate_events("Trace_KeyManagerAPI", tr, shards=1)
        for m in mism:
            m["event"].setdefault("case", {})
        handle(ctx, [dict(m, bad=m["bad"]) for m in mism])
        ctx.cov["traces_validated_against_impl"] += n
        return
    with cf.ThreadPoolExecutor(max_workers=2) as ex:
        fmc = ex.submit(model_check, ctx)
        fplan = ex.submit(plan, ctx)
        cases, kinds = fplan.result()
        ntpl = template_inventory(ctx, cases)
        tr = os.path.join(ctx.scratch, "x03.ndjson")
        r = ctx.run([drv, "-cases", cases, "-out", tr], timeout=3000)
        ctx.log("driver: %d cases executed in %.1fs" % (sum(kinds.values()), r.wall))
        fmc.result()
    stats = collections.Counter()
    lines = open(tr).read().splitlines()
    for x in lines:
        e = json.loads(x)
        stats["events"] += 1
        if e["ev"] == "fmt":
            stats["formats accepted" if not e["km"]["err"] else "formats refused"] += 1
            stats["primitive interop executed"] += bool(e["prim"]["done"])
            stats["PublicKeyData compared"] += bool(e["pub"]["done"])
        elif e["ev"] == "tpl":
            stats["templates executed"] += bool(e["found"])
        elif e["ev"] == "hist":
            stats["history operations"] += len(e["res"])
    ctx.stage("R:driver", **stats)
    mism, n = ctx.validate_events("Trace_KeyManagerAPI", tr, shards=max(2, min(16, len(lines) // 1500)), max_findings=30,
                                  stage="T:Trace_KeyManagerAPI")
    ctx.cov["traces_validated_against_impl"] += n
    handle(ctx, mism)
    for i in (len(lines) // 5, len(lines) // 2, 4 * len(lines) // 5):
        ev, case = slim(json.loads(lines[i]))
        ctx.sample(ev)
    if not ctx.violations and not ctx.known_hits:
        ctx.negative_control("Trace_KeyManagerAPI", tr, corrupt, window=40, stage="NC:Trace_KeyManagerAPI")
    elif not ctx.violations:
        dirty = {who(m["event"]) for m in mism}
        clean = os.path.join(ctx.scratch, "clean.ndjson")
        with open(clean, "w") as f:
            for x in lines:
                if who(json.loads(x)) not in dirty:
                    f.write(x + "\n")
        ctx.negative_control("Trace_KeyManagerAPI", clean, corrupt, window=40, stage="NC:Trace_KeyManagerAPI")


MANIFEST = dict(
    category="model_checking",
    text="Growth X03: registration life-cycle (key managers, KMS clients, configuration builder, internal registries) and the "
         "legacy registry.KeyManager interface (DoesSupport/TypeURL, NewKeyData/NewKey decision table and results, Primitive "
         "interoperability with the keyset factory, PublicKeyData, every exported key template function) as a specification.",
    note="not one of the 20 listed properties; coverage expectations (as-built tables) are exit 2, documented contracts are violations",
    technique="TLA+ decision procedures and state machines (KeyManagerAPI.tla over KeyParams/KeyFormatWire/Registry), bounded "
              "exhaustive TLC model checking of the registries with fault configurations, TLC-generated cases (formats written "
              "at protobuf wire level, operation histories) replayed into the real global registries, TLC trace validation "
              "with a negative control",
    design_ref="DESIGN.md section 8 (growth); GROWTH_BRIEF.md",
)
