"""X07 (growth) - KMS envelope encryption over a remote AEAD that misbehaves, as a state machine with fault sequences.

EnvelopeFaults.tla states what the godoc of aead/kms_envelope_aead.go, the KMS envelope key template, the key manager
and tink.AEAD / tink.AEADWithContext promise about the interplay between ONE envelope AEAD and the remote AEAD it
consults (D1-D7 in the module header): Encrypt consults the remote exactly once, with a fresh DEK of the configured
template and empty associated data, and stores what the remote returned in front of a payload under that DEK; Decrypt
hands the remote exactly the envelope's encrypted DEK, once; a failing remote makes the call fail, with no output; a
remote that returns garbage never yields plaintext; the caller's context reaches the remote; nothing is cached; after
any failure (error or panic) a healthy call succeeds; undocumented key types are rejected; creating the key consults
no remote.  What the code does where no comment speaks (O1-O6: no remote call for frames parseEnvelope refuses, panics
propagate, empty / oversize encrypted DEKs, the context is not inspected, error identity, invalid DEK formats,
GetAEAD once per primitive) is carried as OBSERVATION.

(M) TLC: every sequence of <= 4 (quick) / 6 (thorough) calls over {Encrypt, Decrypt} x 9 remote behaviours each x context
    states x 8 input kinds from every constructible configuration satisfies the contract invariants and step
    properties; eight fault classes of the mechanism (swallowed remote error, retry, cached DEK, cached unwrapping,
    ignored context, sticky error, partial output, caller's AD sent to the remote) must each break the clause that states
    it; three reachability guards.
(R) TLC writes every path of the state machine over graded alphabets (Plan_EnvelopeFaults); harness/cmd/x07 executes them
    on the real library for both constructors and the registry path, every DEK template, over a scripted remote that
    wraps a real AES-256-GCM, recording every remote call and every result; plus seeded random sequences.
(T) TLC (Trace_EnvelopeFaults) abstracts every recorded call, evaluates the model-checked contract invariants on it,
    checks the byte-level linkage with spec/algo/Envelope.tla (frame, the remote's bytes, payload under the DEK the
    remote was given), and requires the step to equal the model's."""
import concurrent.futures as cf
import json
import os

import vlib

TRACE = "Trace_EnvelopeFaults"
TEMPLATES = ["AES128GCM", "AES256GCM", "AES128CTRHMACSHA256", "AES256CTRHMACSHA256", "AES256CTR12HMACSHA512T20", "AES128CTR13HMACSHA1T10",
             "CHACHA20POLY1305", "XCHACHA20POLY1305", "AES128GCMSIV", "AES256GCMSIV", "AES256GCMNOPREFIX", "AES256GCMSIVNOPREFIX"]
FAULTS = {   # fault class of the mechanism -> the contract clause that must expose it
    "swallow": "FaultSurfaces",
    "retry": "RemoteCallAccounting",
    "cache-dek": "FreshDEK",
    "cache-unwrap": "RemoteCallAccounting",
    "ignore-ctx": "ContextPassedAlong",
    "sticky": "Recovery",
    "partial": "NoPartialOutput",
    "ad-to-remote": "RemoteArguments",
}
REACH = ["ReachRecovered", "ReachPoisoned", "ReachCtx"]
ENC_BEHS = ["ok", "alt", "slow", "err", "ctx", "empty", "big", "trunc", "panic"]
DEC_BEHS = ["ok", "slow", "err", "ctx", "panic", "emptydek", "badlen", "junk", "wrongkey"]
KINDS = ["good", "wrongad", "nopayload", "foreign", "short", "zerolen", "toolong", "overrun"]
VARIANT_NAME = {"2": "NewKMSEnvelopeAEAD2", "ctx": "NewKMSEnvelopeAEADWithContext", "keyset": "KmsEnvelopeAeadKey keyset (aead.New + registry.RegisterKMSClient)"}

OBSERVATIONS = [
    "O1 inputs that parseEnvelope refuses (<= 4 bytes, encrypted-DEK length 0, > 4096, or beyond the end of the input) fail before the remote "
    "is consulted: no remote call (that a remote call must carry exactly the envelope's encrypted DEK is documented; the order is not)",
    "O2 a panic of the remote AEAD is not recovered by Encrypt/Decrypt[WithContext] nor by aead.New's wrapper: it propagates to the caller; "
    "the AEAD stays usable afterwards",
    "O3 Encrypt fails (after its one remote call) when the remote returns an empty or a > 4096-byte encrypted DEK; any other size is framed as "
    "is: a truncated wrapping yields an envelope that no honest remote opens (Decrypt then fails with the remote's error)",
    "O4 KMSEnvelopeAEADWithContext never inspects the context itself: with a cancelled or expired context and a remote that ignores it the "
    "call succeeds; the remote's error is returned unchanged (errors.Is(err, context.Canceled / DeadlineExceeded) holds), except behind "
    "aead.New's Decrypt, which reports 'aead_factory: decryption failed'",
    "O5 a DEK template of a supported key type whose format is invalid (AES-GCM key size 17, unparsable ChaCha20-Poly1305 format, ...) is "
    "accepted by NewKMSEnvelopeAEAD2, NewKMSEnvelopeAEADWithContext and CreateKMSEnvelopeAEADKeyTemplate; every Encrypt then fails before "
    "the remote is consulted, Decrypt works. (The godoc of CreateKMSEnvelopeAEADKeyTemplate says 'If either uri or dekTemplate contain invalid "
    "input, an error is returned': an empty URI and such templates are accepted - reported to the lead as documented-vs-actual)",
    "O6 the KmsEnvelopeAeadKey key manager consults the registry when aead.New builds the primitive (Supported, then GetAEAD once, both with "
    "the key's URI), never per call and not in keyset.NewHandle; a KMSClient whose GetAEAD returns (nil, nil) yields a primitive whose "
    "Encrypt and every Decrypt that passes parseEnvelope panic (nil pointer dereference)",
    "O7 no key manager for type.googleapis.com/google.crypto.tink.KmsAeadKey exists in tink-go v2 (only its proto); the topic's KmsAeadKey path "
    "is therefore not exercised",
]


# ------------------------------------------------------------------ (M)
def model_stage(ctx):
    def reach(name):
        r = ctx.tlc("MC_EnvelopeFaults", "MC_EnvelopeFaults_reach_" + name, workers=1)
        if r.invariant != name:
            raise vlib.Infra("MC_EnvelopeFaults: guard state %s is not reached (vacuous model): %s" % (name, r.summary()))
        ctx.stage("M:reach " + name, behaviour_length=r.trace_len)

    def fault(f, inv):
        r = ctx.tlc("MC_EnvelopeFaults", "MC_EnvelopeFaults_fault_" + f.replace("-", "_"), workers=1)
        if r.invariant != inv:
            raise vlib.Infra("fault class %s is NOT exposed by the contract clause %s (TLC: %s) - the contract would be blind to it" % (f, inv, r.summary()))
        ctx.stage("M:fault " + f, exposed_by=r.invariant, behaviour_length=r.trace_len)

    def mc():
        cfg = "MC_EnvelopeFaults" if ctx.thorough else "MC_EnvelopeFaults_quick"
        ctx.model_check("MC_EnvelopeFaults", cfg, stage="M:every fault sequence of <= %d calls, every configuration" % (6 if ctx.thorough else 4),
                        timeout=3000, workers=4, must_cover=False, heap="6g")

    jobs = [(mc, ())] + [(reach, (r,)) for r in REACH] + [(fault, (f, inv)) for f, inv in FAULTS.items()]
    with cf.ThreadPoolExecutor(max_workers=5) as ex:
        for f in [ex.submit(fn, *a) for fn, a in jobs]:
            f.result()


# ------------------------------------------------------------------ (R) plan
def load_plan(ctx):
    plan_f = os.path.join(ctx.scratch, "plan.ndjson")
    new_f = os.path.join(ctx.scratch, "plannew.ndjson")
    r = ctx.tlc("Plan_EnvelopeFaults", "Plan_EnvelopeFaults" if ctx.thorough else "Plan_EnvelopeFaults_quick", workers=1, heap="6g",
                timeout=3000, env=dict(VERIF_PLAN=plan_f, VERIF_PLAN_NEW=new_f))
    if not r.ok or not os.path.exists(plan_f) or not os.path.exists(new_f):
        raise vlib.Infra("Plan_EnvelopeFaults: %s" % (r.error or r.summary()))
    seen, paths = set(), []
    for line in open(plan_f):
        line = line.strip()
        if line and line not in seen:
            seen.add(line)
            paths.append(json.loads(json.loads(line)))
    paths.sort(key=lambda d: json.dumps([d["c"], len(d["path"]), d["level"], d["path"]], sort_keys=True))
    news = [json.loads(x) for x in open(new_f) if x.strip()]
    news.sort(key=lambda d: json.dumps(d["c"], sort_keys=True))
    return paths, news, r


def build_scenarios(ctx, paths, news):
    """every single-label case with EVERY DEK template, the longer paths with templates dealt round robin (the seed
    rotates the deal); every configuration (also those that yield no object) with every template"""
    out, nid = [], 0
    by = {}
    for k, d in enumerate(paths):
        if len(d["path"]) == 1 and d["level"] == "full":
            tl = TEMPLATES
        else:
            tl = [TEMPLATES[(k + ctx.seed) % len(TEMPLATES)]]
        for t in tl:
            nid += 1
            out.append(dict(id=nid, c=d["c"], dek=t, path=d["path"]))
        key = (d["c"]["variant"], len(d["path"]), d["level"])
        by[key] = by.get(key, 0) + 1
    for d in news:
        for t in TEMPLATES:
            nid += 1
            out.append(dict(id=nid, c=d["c"], dek=t, path=[]))
    return out, by


# ------------------------------------------------------------------ driver / validation
def run_driver(ctx, drv, jobs, tag):
    def work(i):
        out = os.path.join(ctx.scratch, "%s.%d.ndjson" % (tag, i))
        r = ctx.run([drv, "-out", out] + jobs[i], timeout=7200)
        return out, r.stdout.strip()

    with cf.ThreadPoolExecutor(max_workers=min(12, len(jobs))) as ex:
        outs = list(ex.map(work, range(len(jobs))))
    tot = {}
    for _, s in outs:
        for kv in s.split():
            k, v = kv.split("=")
            tot[k] = tot.get(k, 0) + int(v)
    return [o for o, _ in outs], tot


def merge(ctx, files, name):
    merged = os.path.join(ctx.scratch, name + "-all.ndjson")
    n = 0
    with open(merged, "w") as w:
        for f in files:
            for x in open(f):
                if x.strip():
                    w.write(x if x.endswith("\n") else x + "\n")
                    n += 1
            os.remove(f)
    if not n:
        raise vlib.Infra("%s: the driver recorded nothing" % name)
    return merged, n


def read_lines(path):
    return [x for x in open(path).read().splitlines() if x.strip()]


def scenario_of(lines, index):
    """the scenario (replayable by harness/cmd/x07 -cases) that contains event `index`, cut behind it"""
    a = index
    while a > 0 and '"ev":"reset"' not in lines[a]:
        a -= 1
    head = json.loads(lines[a])
    path = []
    for x in lines[a + 1:index + 1]:
        e = json.loads(x)
        if e["ev"] == "call":
            path.append(dict(op=e["op"], beh=e["beh"], ctx=e["ctx"], kind=e["kind"], i=e["i"]))
    return dict(id=head["id"], c=dict(variant=head["variant"], tmpl=head["tmpl"], client=head["client"]), dek=head["dek"], path=path)


def short(e):
    e = json.loads(json.dumps(e))
    for k in ("in", "out", "ad"):
        if isinstance(e.get(k), str) and len(e[k]) > 96:
            e[k] = e[k][:96] + "...(%d hex digits)" % len(e[k])
    for rc in e.get("rcalls", []):
        for k in ("arg", "ret"):
            if len(rc.get(k, "")) > 96:
                rc[k] = rc[k][:96] + "...(%d hex digits)" % len(rc[k])
    return e


def signature(head, e, bad):
    clause = bad[0].split(":")[1].strip() if bad[0].count(":") >= 2 else bad[0]
    if e["ev"] == "call":
        return "%s %s %s/%s/%s tmpl=%s: %s" % (VARIANT_NAME.get(head["c"]["variant"], "?"), e["op"], e["kind"], e["beh"], e["ctx"], head["c"]["tmpl"], clause)
    if e["ev"] == "reset":
        return "NewKMSEnvelopeAEAD2 Encrypt over an honest remote (DEK template %s): %s" % (e["dek"], clause)
    return "%s construction tmpl=%s client=%s: %s" % (VARIANT_NAME.get(head["c"]["variant"], "?"), head["c"]["tmpl"], head["c"]["client"], clause)


def report(ctx, mism, lines, stage):
    infra = []
    for m in mism:
        e, bad = m["event"], m["bad"]
        if bad[0].startswith("DOC:"):
            scn = scenario_of(lines, m["index"])
            ctx.violation(signature(scn, e, bad), "%s (EnvelopeFaults.tla expects: %s); recorded: %s" % (bad[0], bad[1:], json.dumps(short(e))[:900]),
                          dict(stage=stage, scenario=scn, event=short(e), spec_says=bad))
        else:
            infra.append(m)
    if infra and not ctx.violations:
        m = infra[0]
        raise vlib.Infra("%s: %s (event %d: %s) -- an OBSERVATION of EnvelopeFaults.tla no longer matches the code (model out of date) or the "
                         "driver is wrong; not a documented-contract violation" % (stage, m["bad"], m["index"], json.dumps(short(m["event"]))[:900]))


def validate(ctx, merged, n, stage):
    mism, _ = ctx.validate_events(TRACE, merged, shards=max(2, min(14, n // 4000)), timeout=5400, heap="5g" if ctx.thorough else "3g", stage=stage,
                                  reset="reset", max_findings=6)
    return mism


def coverage(ctx, lines):
    """every label of the full alphabet on every way of making the AEAD, every outcome, every DEK template, every
    configuration must really have been exercised; a hole is a broken check (exit 2), not a success"""
    labels, outcomes, tmpl, news, reached = {}, {}, {}, {}, {}
    head = None
    n_remote = 0
    for x in lines:
        e = json.loads(x)
        if e["ev"] == "reset":
            head = e
        elif e["ev"] == "new":
            k = (head["variant"], head["tmpl"], head["client"], e["obj"])
            news[k] = news.get(k, 0) + 1
        elif e["ev"] == "call":
            n_remote += len(e["rcalls"])
            if head["tmpl"] == "valid" and head["client"] in ("-", "ok"):
                k = (head["variant"], e["op"], e["beh"], e["ctx"], e["kind"])
                labels[k] = labels.get(k, 0) + 1
                k = (head["variant"], head["dek"], e["op"], e["res"])
                tmpl[k] = tmpl.get(k, 0) + 1
            k = (head["variant"], head["tmpl"], head["client"], e["op"], e["res"], len(e["rcalls"]))
            outcomes[k] = outcomes.get(k, 0) + 1
    holes = []
    for v in ("2", "ctx", "keyset"):
        ctxs = ["live", "cancelled", "expiring"] if v == "ctx" else ["none"]
        for b in ENC_BEHS:
            for c in ctxs:
                if (b == "ctx") == (c == "none") or (c in ("cancelled", "expiring") and b not in ("ok", "slow", "err", "ctx")):
                    continue
                if not labels.get((v, "Encrypt", b, c, "-")):
                    holes.append("no Encrypt %s/%s on %s" % (b, c, v))
        for kd in KINDS:
            for b in DEC_BEHS if kd in KINDS[:4] else ["ok"]:
                for c in ctxs if kd in KINDS[:4] else ctxs[:1]:
                    if (b == "ctx") == (c == "none") or (c in ("cancelled", "expiring") and b not in ("ok", "slow", "err", "ctx")):
                        continue
                    if not labels.get((v, "Decrypt", b, c, kd)):
                        holes.append("no Decrypt %s %s/%s on %s" % (kd, b, c, v))
        for t in TEMPLATES:
            for op in ("Encrypt", "Decrypt"):
                for res in ("ok", "err", "panic"):
                    if not tmpl.get((v, t, op, res)):
                        holes.append("no %s with result %s for DEK template %s on %s" % (op, res, t, v))
    for k in [("2", "unsupported", "-", "ok"), ("2", "badformat", "-", "ok"), ("ctx", "unsupported", "-", "none"), ("ctx", "badformat", "-", "ok"),
              ("keyset", "unsupported", "ok", "none"), ("keyset", "valid", "geterr", "none"), ("keyset", "valid", "nosupport", "none"),
              ("keyset", "valid", "nilaead", "ok"), ("keyset", "badformat", "ok", "ok"), ("keyset", "valid", "ok", "ok")]:
        if not news.get(k):
            holes.append("no construction %s/%s/%s giving %s" % k)
    for k in [("2", "unsupported", "-", "Encrypt", "err", 0), ("2", "unsupported", "-", "Decrypt", "err", 0), ("ctx", "badformat", "-", "Encrypt", "err", 0),
              ("ctx", "badformat", "-", "Decrypt", "ok", 1), ("keyset", "valid", "nilaead", "Encrypt", "panic", 0), ("keyset", "valid", "nilaead", "Decrypt", "panic", 0)]:
        if not outcomes.get(k):
            holes.append("no call %s/%s/%s %s -> %s with %d remote calls" % k)
    if holes:
        raise vlib.Infra("coverage holes (%d): %s" % (len(holes), "; ".join(holes[:12])))
    ctx.stage("coverage", remote_calls_recorded=n_remote, distinct_labels_per_variant={v: len([k for k in labels if k[0] == v]) for v in ("2", "ctx", "keyset")},
              constructions={"%s/%s/%s -> %s" % k: v for k, v in sorted(news.items())},
              outcomes={"%s/%s/%s %s %s remote=%d" % k: v for k, v in sorted(outcomes.items())})
    return n_remote


def _one(ev):
    return len(ev["rcalls"]) == 1


def _c_ad(ev, rng):
    if _one(ev):
        ev["rcalls"][0]["ad"] = "00"
        return ev


def _c_drop(ev, rng):
    if _one(ev):
        ev["rcalls"] = []
        return ev


def _c_twice(ev, rng):
    if _one(ev):
        rc = ev["rcalls"][0]
        ev["rcalls"] = [rc, dict(rc, t0=rc["t1"], t1=rc["t1"])]
        return ev


def _c_partial(ev, rng):
    if ev["res"] == "err":
        ev["out"], ev["outnil"] = "00", False
        return ev


def _c_plaintext(ev, rng):
    if ev["res"] == "ok" and ev["op"] == "Decrypt":
        ev["out"] = ev["out"] + "00"
        return ev


def _c_payload(ev, rng):
    if ev["res"] == "ok" and ev["op"] == "Encrypt" and len(ev["out"]) > 20:
        k = len(ev["out"]) - 2 - 2 * rng.randrange(6)
        ev["out"] = ev["out"][:k] + ("%02x" % (int(ev["out"][k:k + 2], 16) ^ 1)) + ev["out"][k + 2:]
        return ev


def _c_encdek(ev, rng):
    if ev["res"] == "ok" and ev["op"] == "Encrypt" and _one(ev) and len(ev["rcalls"][0]["ret"]) > 8:
        r = ev["rcalls"][0]["ret"]
        ev["rcalls"][0]["ret"] = r[:6] + ("%02x" % (int(r[6:8], 16) ^ 4)) + r[8:]
        return ev


def _c_surface(ev, rng):
    if ev["res"] == "err" and _one(ev) and ev["rcalls"][0]["reterr"]:
        ev["res"], ev["errrem"], ev["errctx"] = "ok", False, False
        return ev


def _c_ctx(ev, rng):
    if _one(ev) and ev["rcalls"][0]["ctx"] in ("live", "cancelled", "expiring"):
        ev["rcalls"][0]["ctx"] = "background"
        return ev


def _c_recovery(ev, rng):
    healthy = ev["beh"] in ("ok", "slow") and ev["ctx"] in ("none", "live") and (ev["op"] == "Encrypt" or ev["kind"] == "good")
    if ev["res"] == "ok" and healthy and _one(ev):
        ev["res"], ev["out"], ev["outnil"] = "err", "", True
        return ev


def _c_wrongarg(ev, rng):
    if ev["op"] == "Decrypt" and _one(ev) and len(ev["rcalls"][0]["arg"]) > 8:
        a = ev["rcalls"][0]["arg"]
        ev["rcalls"][0]["arg"] = a[:-2] + ("%02x" % (int(a[-2:], 16) ^ 1))
        return ev


# (what is tampered with, the clause of the contract that must reject it, how)
CORRUPTIONS = [
    ("remote call: associated data not empty", "DOC: RemoteArguments", _c_ad),
    ("remote call dropped", "DOC: RemoteCallAccounting", _c_drop),
    ("remote call recorded twice", "DOC: RemoteCallAccounting", _c_twice),
    ("output next to an error", "DOC: NoPartialOutput", _c_partial),
    ("Decrypt output", "DOC: DecryptSound", _c_plaintext),
    ("Encrypt output: one bit of the payload", "DOC: D1", _c_payload),
    ("the remote's returned bytes differ from the stored encrypted DEK", "DOC: D1", _c_encdek),
    ("result ok although the remote failed", "DOC: FaultSurfaces", _c_surface),
    ("remote call: another context", "DOC: ContextPassedAlong", _c_ctx),
    ("a healthy call fails", "DOC: Recovery", _c_recovery),
    ("Decrypt: the remote is given other bytes than the envelope's encrypted DEK", "DOC: RemoteArguments", _c_wrongarg),
]


def corrupt(ev, rng):
    """negative control: tamper with one recorded field of a call"""
    if ev["ev"] != "call":
        return None
    order = list(range(len(CORRUPTIONS)))
    rng.shuffle(order)
    for k in order[:3]:
        name, _, fn = CORRUPTIONS[k]
        c = fn(json.loads(json.dumps(ev)), rng)
        if c is not None:
            c["_corrupted"] = name
            return c
    return None


def clause_controls(ctx, lines):
    """every clause of the trace judge is shown live in every run: one recorded call per kind of tampering is
    changed and TLC must reject exactly that event WITH THE CLAUSE THAT STATES IT (also: an Encrypt that reuses the
    DEK of the scenario's first envelope)"""
    import random
    heads = [i for i, x in enumerate(lines) if '"ev":"reset"' in x]

    def window(k):
        import bisect
        j = bisect.bisect_right(heads, k) - 1
        a = heads[j]
        b = heads[j + 1] if j + 1 < len(heads) else len(lines)
        return a, b

    def fresh(ev, rng, pre):
        if ev["op"] == "Encrypt" and _one(ev) and ev["rcalls"][0]["form"] in ("ok", "alt"):
            ev["rcalls"][0]["arg"] = pre["dek"]
            return ev

    todo = [(n, cl, fn, None) for n, cl, fn in CORRUPTIONS] + [("Encrypt hands the remote a DEK used before", "DOC: FreshDEK", None, fresh)]
    jobs = []
    for ji, (name, clause, fn, special) in enumerate(todo):
        rng = random.Random(ctx.seed * 31 + ji)
        start = rng.randrange(max(1, len(lines) // 2))
        found = None
        for k in list(range(start, len(lines))) + list(range(0, start)):
            if '"ev":"call"' not in lines[k]:
                continue
            ev = json.loads(lines[k])
            if special:
                a, b = window(k)
                c = special(ev, rng, json.loads(lines[a])["pre"])
            else:
                c = fn(ev, rng)
            if c is not None:
                found = (k, c)
                break
        if not found:
            raise vlib.Infra("clause control: no recorded call to apply '%s' to" % name)
        jobs.append((ji, name, clause, found))

    def work(job):
        ji, name, clause, (k, c) = job
        a, b = window(k)
        sub = lines[a:b]
        sub[k - a] = json.dumps(c)
        p = os.path.join(ctx.scratch, "cc.%d.%d.ndjson" % (ji, k))
        open(p, "w").write("\n".join(sub) + "\n")
        r = ctx.tlc(TRACE, env=dict(VERIF_TRACE=p, VERIF_START=1), workers=1)
        os.remove(p)
        bad = (r.last_state or {}).get("bad") or [""]
        if not r.invariant or (r.last_state or {}).get("l") != (k - a) + 2 or not bad[0].startswith(clause):
            raise vlib.Infra("clause control '%s': expected rejection by '%s' at the tampered event, TLC says %s / l=%s / %s"
                             % (name, clause, r.summary(), (r.last_state or {}).get("l"), bad))
        return name, bad[0]

    with cf.ThreadPoolExecutor(max_workers=6) as ex:
        res = list(ex.map(work, jobs))
    ctx.stage("NC:every clause of the judge", **{n: b[:90] for n, b in res})
    ctx.log("clause controls: %d tamperings, each rejected by the clause that states it" % len(res))


# ------------------------------------------------------------------ the check
def run(ctx):
    ctx.cov["rule"] = (
        "(M) EnvelopeFaults.tla: every sequence of <= 4 (quick) / 6 (thorough) calls from every constructible configuration (NewKMSEnvelopeAEAD2 | "
        "NewKMSEnvelopeAEADWithContext | keyset + registered client) x (valid | invalid-format | unsupported DEK template) over the full alphabet: "
        "Encrypt x remote {ok, alt, slow, err, ctx, empty, big, trunc, panic}, Decrypt x input {good, wrongad, nopayload, foreign, short, zerolen, "
        "toolong, overrun} (first / newest envelope) x remote {ok, slow, err, ctx, panic, emptydek, badlen, junk, wrongkey}, contexts {live, "
        "cancelled, expiring}; 8 fault classes must each violate the clause that states it. (R) every path TLC finds: length 1 and 2 over the full "
        "alphabet, 3 over the core [thorough: mid] alphabet, 4 over the tiny [thorough: core] alphabet; single labels with every one of 12 DEK "
        "templates, longer paths with templates dealt round robin (rotated by the seed); all 18 configurations' constructions; (T) seeded random "
        "sequences of 8-12 calls over the full alphabet. Every recorded call is abstracted and judged by the model-checked invariants, the "
        "byte-level linkage (Envelope.tla: frame, remote's bytes, payload under the DEK the remote was given) and equality with the model's step")
    ctx.assumptions += [
        "the remote is in-process: a script in front of a real Tink AES-256-GCM (aead/subtle); 'slow' is 2 ms, an expiring context 1 ms - ordering "
        "only, no wall-clock claim",
        "the wire format, its bounds and the DEK AEADs themselves are C01/C02 (spec/algo/Envelope.tla is reused read-only to find the encrypted DEK "
        "in an input and to open a payload under a DEK); the KMS client list is X03; statistical DEK freshness is C20 (here: never the same DEK "
        "twice within a scenario)",
        "clauses marked O1-O6 in EnvelopeFaults.tla are not oracles: a deviation stops the run with exit 2 (see `observations`)",
    ]
    ctx.cov["observations"] = OBSERVATIONS
    drv = ctx.go_build("x07")
    if ctx.replay:
        obj = json.load(open(ctx.replay))
        f = os.path.join(ctx.scratch, "replay.scn")
        open(f, "w").write(json.dumps(obj["scenario"]) + "\n")
        files, _ = run_driver(ctx, drv, [["-cases", f]], "replay")
        merged, n = merge(ctx, files, "replay")
        lines = read_lines(merged)
        for m in validate(ctx, merged, n, "replay"):
            if m["bad"][0].startswith("DOC:"):
                ctx.violation("replay", "%s (spec: %s)" % (m["bad"][0], m["bad"][1:]), dict(scenario=obj["scenario"], event=short(m["event"]), spec_says=m["bad"]))
            else:
                raise vlib.Infra("replay: %s" % m["bad"])
        return
    # ---------------------------------------------------------------- (M)
    if not os.environ.get("VERIF_X07_SKIP_M"):
        model_stage(ctx)
    # ---------------------------------------------------------------- (R) fault sequences from TLC
    paths, news, r = load_plan(ctx)
    scenarios, by = build_scenarios(ctx, paths, news)
    ctx.stage("R:plan", paths_in_model=len(paths), constructions=len(news), scenarios_executed=len(scenarios),
              paths_by_variant_length_alphabet={"%s len=%d %s" % k: v for k, v in sorted(by.items())})
    ctx.log("plan: %d paths, %d constructions -> %d scenarios" % (len(paths), len(news), len(scenarios)))
    procs = 12
    jobs = []
    for i in range(procs):
        f = os.path.join(ctx.scratch, "cases.%d.ndjson" % i)
        open(f, "w").write("".join(json.dumps(c) + "\n" for c in scenarios[i::procs]))
        jobs.append(["-cases", f])
    files, t = run_driver(ctx, drv, jobs, "plan")
    ctx.stage("R:driver", **t)
    ctx.log("driver (plan):", t)
    merged1, n1 = merge(ctx, files, "plan")
    mism = validate(ctx, merged1, n1, "R:fault sequences from TLC through the real library")
    lines1 = read_lines(merged1) if (mism or not ctx.thorough) else None
    if mism:
        report(ctx, mism, lines1, "R")
    ctx.cov["traces_validated_against_impl"] += len(scenarios)
    # ---------------------------------------------------------------- (T) random sequences
    nh = 6000 if ctx.thorough else 360
    ln = 12 if ctx.thorough else 8
    jobs = [["-random", str(nh // 12), "-len", str(ln), "-stream", str(i)] for i in range(12)]
    files, t2 = run_driver(ctx, drv, jobs, "rand")
    ctx.stage("T:driver", sequences=(nh // 12) * 12, length=ln, **t2)
    ctx.log("driver (random):", t2)
    merged2, n2 = merge(ctx, files, "rand")
    mism2 = validate(ctx, merged2, n2, "T:seeded random fault sequences")
    lines2 = read_lines(merged2)
    if mism2:
        report(ctx, mism2, lines2, "T")
    ctx.cov["traces_validated_against_impl"] += (nh // 12) * 12
    ctx.cov["events"] = n1 + n2
    if ctx.violations:
        return
    if lines1 is None:
        lines1 = read_lines(merged1)
    ctx.cov["remote_calls_judged"] = coverage(ctx, lines1 + lines2)
    calls = [x for x in lines1 if '"ev":"call"' in x]
    for k in (1, len(calls) // 3, len(calls) // 2, (2 * len(calls)) // 3):
        ctx.sample(short(json.loads(calls[k])))
    del lines1, calls
    clause_controls(ctx, lines2)
    ctx.negative_control(TRACE, merged1, corrupt, reset="reset", stage="NC:plan")
    ctx.negative_control(TRACE, merged2, corrupt, reset="reset", stage="NC:random")


MANIFEST = dict(
    category="model_checking",
    text=("EnvelopeFaults.tla states, as a state machine over one KMS envelope AEAD and the remote AEAD it consults, what the godoc promises when "
          "the remote misbehaves: one remote call per envelope call with a fresh DEK of the template and empty associated data, exactly the "
          "envelope's encrypted DEK on Decrypt, a failing or garbage-returning remote never gives a result nor partial output, the caller's context "
          "reaches the remote, nothing is cached, a healthy call succeeds after any failure, undocumented DEK key types are rejected. TLC checks "
          "the mechanism against these invariants on every fault sequence of bounded length and shows that eight fault classes break them; "
          "TLC-written fault sequences and random ones are executed on the real library (both constructors, the registry path, 12 DEK templates) "
          "over a scripted remote wrapping a real AES-GCM; TLC abstracts every recorded call, evaluates the same invariants on it, checks the "
          "byte-level linkage with Envelope.tla and requires equality with the model's step."),
    note=("Growth check (not one of the 20 listed properties). Undocumented behaviour (no remote call for refused frames, panics propagate, "
          "empty/oversize encrypted DEK, context not inspected, error identity, invalid DEK formats, GetAEAD once per primitive) is carried as "
          "OBSERVATION: deviations are exit 2. No hook needed (public API only)."),
    technique="TLA+ state machine + contract invariants + TLC exhaustive model checking with fault classes + TLC-generated fault sequences replayed "
              "into the real library + TLC trace validation (stateful, reset-separated scenarios), negative control",
    design_ref="DESIGN.md section 8 (growth), GROWTH_BRIEF.md",
)
