"""C08 - Deterministic AEAD (AES-SIV) and AES-KWP follow their RFCs and reject forgeries."""
import collections
import json
import os

import vlib


def _shuffle(ctx, trace):
    """Events are independent: interleave the classes so that the TLC shards carry equal work."""
    import random
    lines = open(trace).read().splitlines()
    random.Random(ctx.seed).shuffle(lines)
    open(trace, "w").write("\n".join(lines) + "\n")


def corrupt_siv(ev, rng):
    ev = dict(ev)
    if ev["ev"] in ("enc", "xorend") and ev["out"]:
        i = rng.randrange(len(ev["out"]))
        ev["out"] = ev["out"][:i] + ("0" if ev["out"][i] != "0" else "1") + ev["out"][i + 1:]
        if "out2" in ev:
            ev["out2"] = ev["out"]
        ev["_corrupted"] = "out"
        return ev
    if ev["ev"] == "dec" and not ev["panic"]:
        if ev["ok"]:
            ev["ok"], ev["out"] = False, ""
        else:
            ev["ok"] = True
        ev["_corrupted"] = "ok"
        return ev
    return None


def corrupt_kwp(ev, rng):
    ev = dict(ev)
    if ev["ev"] == "wrap" and ev["ok"]:
        i = rng.randrange(len(ev["out"]))
        ev["out"] = ev["out"][:i] + ("0" if ev["out"][i] != "0" else "1") + ev["out"][i + 1:]
        ev["out2"] = ev["out"]
        ev["_corrupted"] = "out"
        return ev
    if ev["ev"] == "unwrap" and not ev["panic"] and not ev["kind"].startswith("forge") and not ev["kind"].startswith("foreign"):
        if ev["ok"]:
            ev["ok"], ev["out"] = False, ""
        else:
            ev["ok"] = True
        ev["_corrupted"] = "ok"
        return ev
    return None


def _sig(e, bad):
    if e["ev"] in ("enc", "dec"):
        ks = e.get("ks") or [{}]
        cls = e.get("kind", "")
        cls = cls.split("#")[0].rstrip("0123456789")
        return "daead/%s/%s%s/%s %s %s" % (e.get("route"), ks[0].get("variant"), "+multi" if len(ks) > 1 else "", e["ev"], cls, bad[0])
    if e["ev"] == "xorend":
        return "aescmac.XOREndAndCompute %s" % bad[0]
    return "kwp/subtle/%s %s %s" % (e["ev"], e.get("kind", "").split("#")[0], bad[0])


def _judge(ctx, module, trace, corrupt, replaying=False, control=True, stage=None):
    mism, n = ctx.validate_events(module, trace, max_findings=4, stage=stage)
    spec_bugs = [m for m in mism if m["bad"][0].startswith("SPEC:") or m["bad"][0] == "unknown event"]
    if spec_bugs:
        raise vlib.Infra("%s: the reference disagrees with itself: %s" % (module, json.dumps(spec_bugs[0])[:1200]))
    for m in mism:
        e = m["event"]
        sig = "replay" if replaying else _sig(e, m["bad"])
        ctx.violation(sig, "%s (spec expected %s)" % (m["bad"][0], _short(m["bad"][1:])), dict(event=e, spec_says=m["bad"]))
    if not mism and not replaying and control:
        ctx.negative_control(module, trace, corrupt, stage="NC:" + module)
    return mism, n


def _short(x):
    s = str(x)
    return s if len(s) < 200 else s[:200] + "..."


def _scan(trace, acc):
    """Accumulate event classes, covered lengths and the count of accepted short-key wrappings of one trace."""
    for line in open(trace):
        e = json.loads(line)
        if "inIntact" not in e:
            raise vlib.Infra("C08: event without inIntact: %s" % e["ev"])
        acc["classes"][(e["ev"], e.get("kind", "").split("#")[0].rstrip("0123456789"))] += 1
        if e["ev"] == "enc" or (e["ev"] == "wrap" and e["ok"]):
            acc["lens"].add(len(e["pt"]) // 2)
        if e["ev"] == "unwrap" and e["ok"] and len(e["out"]) // 2 < 16:
            acc["short"] += 1


def _coverage(ctx, part, acc):
    """Coverage expectations (exit 2 when the enumeration itself is broken; never a verdict)."""
    c, lens = acc["classes"], acc["lens"]
    if part == "siv":
        need = set(range(0, 35)) | {47, 48, 49, 63, 64, 65} if not ctx.thorough else set(range(0, 81)) | {4096, 65536}
        if not need <= lens:
            raise vlib.Infra("C08 SIV: plaintext lengths not covered: %s" % sorted(need - lens)[:20])
        for k in ("flip", "trunc", "adflip", "sivbit", "garbageR", "prefixswap", "exact", "bykey"):
            if c[("dec", k)] == 0:
                raise vlib.Infra("C08 SIV: mutation class %s never executed" % k)
        if c[("enc", "repeat")] == 0 or c[("enc", "walk")] == 0 or c[("enc", "enclosed-whole")] == 0:
            raise vlib.Infra("C08 SIV: no encryption repeated after buffer reuse / no length walk on one primitive")
        if c[("xorend", "")] == 0:
            raise vlib.Infra("C08 SIV: xorend routine never executed")
    else:
        need = set(range(16, 201)) | {8191, 8192}
        if ctx.thorough:
            need = set(range(16, 8193))
        if not need <= lens:
            raise vlib.Infra("C08 KWP: wrap lengths not covered: %s" % sorted(need - lens)[:20])
        for k in ("corrupt", "trunc", "forge-pad-nonzero", "forge-mli-wide", "garbage", "exact"):
            if c[("unwrap", k)] == 0:
                raise vlib.Infra("C08 KWP: mutation class %s never executed" % k)
        if c[("wrap", "repeat")] == 0 or c[("wrap", "walk")] == 0 or c[("wrap", "enclosed-whole")] == 0:
            raise vlib.Infra("C08 KWP: no wrap repeated after buffer reuse / scribbling")
        ctx.cov["kwp_unwrap_accepts_rfc_valid_wrappings_of_keys_shorter_than_16"] = acc["short"]
    ctx.cov.setdefault("event_classes", {}).update({"%s:%s" % k: v for k, v in sorted(c.items())})


def run(ctx):
    ctx.cov["rule"] = (
        "AES-SIV: real Encrypt/DecryptDeterministically calls over route (keyset factory, per-key constructor, subtle) x "
        "variant x key id x key class x multi-key keysets x plaintext length (every length 0..34 quick / 0..80 thorough plus "
        "block multiples up to 64 KiB) x AD length classes 0..1000 x content class x mutation (every bit flip of small "
        "ciphertexts, every truncation, extensions, AD edits, SIV bits 31/63, prefix edits, garbage of every length "
        "0..min+2, ciphertexts of foreign origin from Wycheproof); the CMAC xorend routine for every data length 16..100 "
        "(300 thorough). AES-KWP: Wrap/Unwrap over KEK size x payload length (every length 0..200 quick / 0..8200 "
        "thorough) x single-byte corruptions x mis-sized inputs x forged length/padding/ICV fields. Every event judged by "
        "TLC against SIV.tla / KWP.tla (RFC 5297 / RFC 5649 transcribed over the JDK AES block)")
    ctx.cov["buffers"] = ("every input handed to Tink lives in a driver-owned reused buffer that is scribbled over after every "
                          "constructor and call; inputs are logged from pristine copies, outputs after the scribble; the earliest "
                          "calls of every primitive are repeated at the end of its life (kind=repeat), and every primitive is walked "
                          "through the plaintext / AD / payload length classes growing, shrinking to empty and growing again "
                          "(kind=walk), each call its own judged event; every input has sentinel-filled spare capacity and guard zones "
                          "and the trace spec judges inIntact (input, spare capacity, guards unchanged) with the value; enclosing-"
                          "buffer sequence buf[:n] then buf[:n+k] without rewriting (kind=enclosed-*)")
    ctx.assumptions += ["AES block cipher is the JDK's (independent of Go's standard library)",
                        "KWP payloads longer than 520 octets are judged by the JDK's AES/KWP unless sampled as 'deep' "
                        "(then the TLA+ W must also equal the JDK)",
                        "rejection is checked on enumerated mutations, not on all byte strings"]
    drv = ctx.go_build("c08")
    if ctx.replay:
        trace = ctx.scratch + "/c08.ndjson"
        ctx.run([drv, "-out", trace, "-replay", ctx.replay])
        ev = json.loads(open(trace).readline())
        module = "Trace_KWP" if ev["ev"] in ("wrap", "unwrap") else "Trace_DAEAD"
        _judge(ctx, module, trace, None, replaying=True)
        return
    total = 0
    chunks = 8 if ctx.thorough else 1          # the thorough KWP run (every payload length 0..8200) is validated in pieces
    for part, module, corrupt, pieces in (("siv", "Trace_DAEAD", corrupt_siv, 1), ("kwp", "Trace_KWP", corrupt_kwp, chunks)):
        acc = dict(classes=collections.Counter(), lens=set(), short=0)
        for i in range(pieces):
            trace = ctx.scratch + "/c08-%s-%d.ndjson" % (part, i)
            r = ctx.run([drv, "-part", part, "-chunk", "%d/%d" % (i, pieces), "-out", trace])
            ctx.log(r.stdout.strip())
            _scan(trace, acc)
            _shuffle(ctx, trace)
            # large traces are validated in pieces of <= 150k events (16 TLC shards each) to bound the JVM heaps
            lines = open(trace).read().splitlines()
            os.remove(trace)
            if i == 0:
                for k in (20, len(lines) // 2, len(lines) - 5):
                    ctx.sample(json.loads(lines[k]))
            step = 150000
            for j in range(0, len(lines), step):
                piece = ctx.scratch + "/c08-%s-%d-%d.ndjson" % (part, i, j // step)
                open(piece, "w").write("\n".join(lines[j:j + step]) + "\n")
                mism, n = _judge(ctx, module, piece, corrupt, control=(i == 0 and j == 0),
                                 stage="T:%s/%d.%d" % (module, i, j // step))
                total += n
                os.remove(piece)
            del lines
            ctx.cov["traces_validated_against_impl"] += 1
        _coverage(ctx, part, acc)
    ctx.cov["events"] = total


# ---------------------------------------------------------------------------------------------
# selfspec: Wycheproof known answers through the same trace specs
def _siv_kat(wy):
    evs = []
    for g in wy("aes_siv_cmac_test.json")["testGroups"]:
        for t in g["tests"]:
            evs.append(dict(ev="kat", key=t["key"], ads=[t["aad"]], pt=t["msg"], ct=t["ct"], valid=(t["result"] != "invalid"),
                            kind="aes_siv_cmac#%d" % t["tcId"]))
    # RFC 5297 section 3 nonce-based mode: AD vector <<aad, nonce>>, wire = tag || ct
    for g in wy("aead_aes_siv_cmac_test.json")["testGroups"]:
        for t in g["tests"]:
            evs.append(dict(ev="kat", key=t["key"], ads=[t["aad"], t["iv"]], pt=t["msg"], ct=t["tag"] + t["ct"],
                            valid=(t["result"] != "invalid"), kind="aead_aes_siv_cmac#%d" % t["tcId"]))
    return evs


def _kwp_kat(wy):
    evs = []
    for g in wy("aes_kwp_test.json")["testGroups"]:
        for t in g["tests"]:
            evs.append(dict(ev="kat", key=t["key"], pt=t["msg"], ct=t["ct"], valid=(t["result"] != "invalid"),
                            kind="aes_kwp#%d" % t["tcId"]))
    return evs


SELFSPEC = {"Trace_DAEAD": _siv_kat, "Trace_KWP": _kwp_kat}

MANIFEST = dict(
    category="model_checking",
    text=("Every recorded EncryptDeterministically/DecryptDeterministically call (all routes, variants, key ids, multi-key "
          "keysets; every plaintext length 0..80 and block multiples, AD length classes, systematic ciphertext/AD mutations, "
          "ciphertexts of foreign origin), every call of the CMAC xorend routine, and every kwp/subtle Wrap/Unwrap call "
          "(every payload length 0..8200 in the thorough tier, every single-byte corruption of small wrappings, mis-sized "
          "inputs, forged length/padding/ICV fields) is judged by TLC against executable TLA+ transcriptions of RFC 5297 "
          "(S2V, dbl, xorend/pad, CTR with bits 31/63 cleared, compare-after-decrypt) and RFC 5649 (W, W^-1, AIV, padding "
          "check) over an uninterpreted AES block bound to the JDK. Conformance, not a proof: the quantifier over "
          "plaintexts is covered by exhaustive small lengths plus boundary classes and content classes."),
    note=("Trusted: JDK AES provider (and JDK AES/KWP for payloads > 520 octets not sampled as deep), TLC, the TLA+ "
          "transcriptions (gated by the RFC appendix vectors and all Wycheproof aes_siv_cmac, aead_aes_siv_cmac and aes_kwp "
          "vectors in bin/selfspec). Forgery rejection is checked on enumerated mutations only. Unwrap accepting RFC-valid "
          "wrappings of 9..15-octet keys is outside the statement and only counted."),
    technique="TLA+ reference specs (RFC 5297, RFC 5649) + TLC trace validation of recorded real-code calls, negative controls",
    design_ref="DESIGN.md section 6, C08",
)
