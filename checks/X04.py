"""X04 (growth) - keyset.Handle as an immutable value with its accessor API, Manager.AddKeyWithOpts with its
options, Manager.SetAnnotations and the handle constructors of keyset / insecurecleartextkeyset / testkeyset,
as a state machine on top of KeysetManager.tla (C11).

(M) exhaustive TLC model checking of spec/sys/KeysetHandle.tla: every C11 clause over histories that mix the
    listed and the new operations; two configurations whose violation is EXPECTED (the documented deviation of
    AddKeyWithOpts: AsPrimary + colliding id clears the primaries before returning the error);
(R) three TLC-generated case sets executed on real objects: every edge of a manager-centred state graph
    (transition tour), the decision table of AddKeyWithOpts (every option list up to a length), and the table
    of the handle-level API over every small well-formed keyset;
(T) seeded random histories mixing all manager and handle operations.
Every recorded call (result, every manager's entries / unavailable ids / annotations, every live handle, the
call's output) is judged by TLC through spec/trace/Trace_KeysetHandle.tla."""
import concurrent.futures as cf
import json
import os
from collections import defaultdict, deque

PURE = {"HLen", "HEntry", "HPrimary", "HInfo", "HString", "HNil", "NewHandleFail", "SetAnnotationsNilMgr",
        "AddOptsRefused", "AddOptsCollision", "AddOptsNilKey"}


# ------------------------------------------------------------------ plans
def step_of(res, io):
    a = io["args"]
    op = res["op"]
    st = dict(op=op, m=res["m"])
    if op in ("AddRandom", "NewHandle"):
        st.update(id=a["id"], withReq=a["withReq"], mat=a["mat"])
    elif op == "AddFail":
        st.update(burn=sorted(a["burn"]))
    elif op == "AddKeyReq":
        st.update(id=a["id"], mat=a["mat"])
    elif op in ("SetPrimary", "Enable", "Disable", "Delete"):
        st.update(id=a["id"])
    elif op == "FromHandle":
        st.update(h=a["h"])
    elif op in ("SetAnnotations", "SetAnnotationsNilMgr"):
        st.update(a=a["a"])
    elif op.startswith("AddOpts"):
        st.update(opts=a["opts"])
        if op != "AddOptsNilKey":
            st.update(r=a["r"], mat=a["mat"], id=res["id"])
    elif op in ("HLen", "HPrimary", "HInfo", "HString", "HPublic"):
        st.update(h=a["h"])
    elif op == "HEntry":
        st.update(h=a["h"], i=a["i"])
    elif op == "HNil":
        st.update(nilop=a["op"])
    elif op == "Import":
        st.update(h=a["h"], ctor=a["ctor"])
    elif op == "ImportAnn":
        st.update(h=a["h"], anns=a["anns"])
    elif op in ("Handle", "NewHandleFail"):
        pass
    else:
        raise ValueError("unknown op in edge: " + op)
    return st


def synth_prefix(state):
    """Calls that build `state` (one manager; at most one handle, which is the manager's own keyset) from
    scratch.  They are ordinary calls of the trace: the trace spec validates them like every other event."""
    g = state["mgr"][0]
    steps = []
    ids = [e["id"] for e in g["entries"]]
    for u in g["unavail"]:
        if u not in ids:
            steps.append(dict(op="AddFail", m=1, burn=[u]))
    for e in g["entries"]:
        opts = []
        if e["status"] != "ENABLED":
            opts.append(dict(o="status", s=e["status"], id=0))
        if e["req"] == 0:
            opts.append(dict(o="fixed", s="", id=e["id"]))
        if e["primary"]:
            opts.append(dict(o="primary", s="", id=0))
        steps.append(dict(op="AddOptsOk", m=1, r=e["req"], mat=e["mat"], opts=opts, id=e["id"]))
    if g["ann"] != "nil":
        steps.append(dict(op="SetAnnotations", m=1, a=g["ann"]))
    hs = state["handles"]
    if len(hs) > 1 or (hs and (hs[0]["entries"] != g["entries"] or hs[0]["ann"] != g["ann"])):
        raise ValueError("cannot synthesize a prefix for " + json.dumps(state))
    if hs:
        steps.append(dict(op="Handle", m=1))
    return steps


def build_plan(edges_path, plan_path, rng, is_init, max_len=60, targets=None):
    """Transition tour of the dumped graph (as in C11): path to an uncovered edge along the BFS tree, then greedy
    extension along uncovered edges.  Initial states are reached by a synthesized prefix.  Returns
    (n_states, n_edges_reachable, n_covered, n_scenarios, n_steps)."""
    sid = {}
    states = []          # id -> parsed state (kept only for initial states)
    succ = defaultdict(list)
    edges = []           # (pre id, post id, step json)
    init_ids = {}

    def intern(obj):
        k = json.dumps(obj, sort_keys=True)
        i = sid.get(k)
        if i is None:
            i = sid[k] = len(sid)
            states.append(obj if is_init(obj) else None)
            if states[i] is not None:
                init_ids[i] = True
        return i

    with open(edges_path) as f:
        for line in f:
            line = line.strip()
            if not line:
                continue
            e = json.loads(json.loads(line))
            p, q = intern(e["pre"]), intern(e["post"])
            edges.append((p, q, json.dumps(step_of(e["res"], e["io"]))))
            succ[p].append(len(edges) - 1)
    parent = {k: None for k in init_ids}
    dq = deque(init_ids)
    while dq:
        s = dq.popleft()
        for ei in succ.get(s, []):
            q = edges[ei][1]
            if q not in parent:
                parent[q] = ei
                dq.append(q)
    covered = [False] * len(edges)
    want = [True] * len(edges) if targets is None else [json.loads(e[2])["op"] in targets for e in edges]

    def tree_path(s):
        p = []
        while parent[s] is not None:
            p.append(parent[s])
            s = edges[parent[s]][0]
        return p[::-1], s

    order = list(range(len(edges)))
    rng.shuffle(order)
    n_sc = n_steps = 0
    with open(plan_path, "w") as out:
        for ei in order:
            if covered[ei] or not want[ei] or edges[ei][0] not in parent:
                continue
            path, root = tree_path(edges[ei][0])
            path.append(ei)
            inpath = set(path)
            cur = edges[ei][1]
            while len(path) < max_len:
                nxt = [x for x in succ.get(cur, []) if not covered[x] and want[x] and x not in inpath]
                if not nxt:
                    break
                x = nxt[0]
                path.append(x)
                inpath.add(x)
                cur = edges[x][1]
            for x in path:
                covered[x] = True
            steps = synth_prefix(states[root]) + [json.loads(edges[x][2]) for x in path]
            out.write(json.dumps(dict(steps=steps)) + "\n")
            n_sc += 1
            n_steps += len(steps)
    reach = sum(1 for i, e in enumerate(edges) if e[0] in parent and want[i])
    cov = sum(1 for i in range(len(edges)) if covered[i] and want[i])
    return len(parent), reach, cov, n_sc, n_steps


def empty_state(s):
    return not s["handles"] and all(not m["entries"] and not m["unavail"] and m["ann"] == "nil" for m in s["mgr"])


# ------------------------------------------------------------------ verdicts
def corrupt(ev, rng):
    if ev["ev"] == "reset":
        return None
    ev = json.loads(json.dumps(ev))
    choice = rng.randrange(6)
    if choice == 0:
        ev["err"] = not ev["err"]
        ev["_corrupted"] = "err"
        return ev
    es = [e for m in ev["ms"] for e in m["entries"]]
    if choice == 1 and es:
        e = rng.choice(es)
        e["status"] = "DISABLED" if e["status"] != "DISABLED" else "DESTROYED"
        ev["_corrupted"] = "ms.entries.status"
        return ev
    hes = [e for h in ev["hs"] for e in h["entries"]]
    if choice == 2 and hes:
        e = rng.choice(hes)
        e["primary"] = not e["primary"]
        ev["_corrupted"] = "hs.entries.primary"
        return ev
    if choice == 3 and ev["hs"]:
        h = rng.choice(ev["hs"])
        h["ann"] = "k=corrupted" if h["ann"] != "k=corrupted" else "nil"
        ev["_corrupted"] = "hs.ann"
        return ev
    if choice == 4 and ev["ev"] == "HLen":
        ev["out"] += 1
        ev["_corrupted"] = "out"
        return ev
    if choice == 5 and ev["ev"] in ("HInfo", "HString") and not ev["err"]:
        ev["out"]["keys"][0]["status"] = "DISABLED" if ev["out"]["keys"][0]["status"] != "DISABLED" else "ENABLED"
        ev["_corrupted"] = "out.keys.status"
        return ev
    return None


def signature(m):
    return "keyset/%s %s" % (m["event"]["ev"], m["bad"][0])


class Verdicts:
    """doc: mismatches are violations; obs: mismatches are failed coverage expectations (exit 2)."""

    def __init__(self, ctx):
        self.ctx = ctx
        self.obs = []

    def take(self, mism, trace, scen=None, note=None):
        lines = None
        for m in mism:
            what = "%s (spec: %s)" % (m["bad"][0], m["bad"][1:])
            if not m["bad"][0].startswith("doc: "):
                self.obs.append("%s at event %d: %s" % (signature(m), m["index"], what[:600]))
                continue
            obj = dict(event=m["event"], spec_says=m["bad"])
            if scen is not None:
                if lines is None:
                    lines = open(trace).read().splitlines()
                k = sum(1 for x in lines[:m["index"] + 1] if '"ev":"reset"' in x) - 1
                obj["scenario"] = scen[k]
            if note:
                obj["note"] = note
            self.ctx.violation(signature(m), what, obj)

    def settle(self):
        if self.obs and not self.ctx.violations:
            self.ctx.infra("coverage expectation failed: the real code differs from UNDOCUMENTED behaviour that KeysetHandle.tla "
                           "copies from the code (update the specification, not a verdict about the code): " + " | ".join(self.obs[:3]))


def observations(paths):
    """Undocumented behaviours the model copies from the code, with the number of recorded calls that showed them."""
    c = defaultdict(int)
    for p in paths:
        prev = None
        for line in open(p):
            e = json.loads(line)
            ev = e["ev"]
            if ev == "reset":
                prev = None
                continue
            if ev == "AddOpts" and e["err"] and prev is not None:
                m = e["m"] - 1
                had = any(x["primary"] for x in prev["ms"][m]["entries"])
                has = any(x["primary"] for x in e["ms"][m]["entries"])
                if had and not has:
                    c["AddKeyWithOpts(AsPrimary, id already in use): every primary flag is cleared BEFORE the collision error is "
                      "returned; the manager is left without a primary (violates C11 'an error leaves the keyset unchanged'; "
                      "DESIGN.md section 9)"] += 1
            if ev == "AddOpts" and not e["err"] and any(o["o"] == "status" and o["s"] == "DESTROYED" for o in e["opts"]):
                c["AddKeyWithOpts(WithStatus(Destroyed)) is accepted (a DESTROYED key enters a manager without an external keyset)"] += 1
            if ev == "AddOpts" and e["err"] and prev is not None and e["ms"] == prev["ms"]:
                c["AddKeyWithOpts refuses WithStatus(Unknown), AsPrimary with a status other than ENABLED, WithFixedID against "
                  "the key's ID requirement and an id in use, leaving the keyset unchanged (error conditions are not in the godoc)"] += 1
            if ev == "AddOptsNilKey":
                c["AddKeyWithOpts(nil key) returns an error"] += 1
            if ev == "HPublic" and not e["err"] and e["hs"][e["h"] - 1]["ann"] != "nil" and e["hs"][-1]["ann"] == "nil":
                c["Handle.Public(): the public handle does not carry the annotations of the private handle"] += 1
            if ev == "FromHandle" and e["hs"][e["h"] - 1]["ann"] != "nil" and e["ms"][e["m"] - 1]["ann"] == "nil":
                c["NewManagerFromHandle(h) does not take over the annotations of h"] += 1
            if ev == "HNil":
                c["methods of a nil *Handle: Len() = 0; Entry, Primary, Public return an error (KeysetInfo and String "
                  "dereference nil: not called)"] += 1
            if ev == "SetAnnotationsNilMgr":
                c["SetAnnotations on a nil *Manager returns an error"] += 1
            if ev == "ImportAnn" and e["err"]:
                c["a second keyset.WithAnnotations option is refused once the handle has a non-nil map (an empty map counts, nil does not)"] += 1
            prev = e
    return [dict(behaviour=k, calls_observed=v) for k, v in sorted(c.items())]


STATIC_OBSERVATIONS = [
    "(&keyset.Manager{}).AddKey panics (assignment to entry in nil map); Add on it returns the documented error. "
    "nil *Handle: KeysetInfo()/String() panic (nil dereference). Reproduced by a throw-away program; not exercised by the driver.",
    "One symmetric key in four of the driver's population is an AES-GCM key with a 16-byte IV (no exact proto form, C12 known "
    "finding): while /repo's serializer refused such keys (commit dac76e9, withdrawn by 19e006d) Handle.KeysetInfo(), String() "
    "and Manager.Handle() with annotations panicked for them; a panic in any call is a VIOLATION of this check.",
]


# ------------------------------------------------------------------ the check
def expect_violation(ctx, cfg, prop, stage):
    """A configuration whose violation is EXPECTED: the deviation must be found, by the named action."""
    r = ctx.tlc("MC_KeysetHandle", cfg, workers=1, heap="4g")
    if r.error:
        ctx.infra("%s: %s" % (stage, r.error))
    last = (r.last_state or {}).get("res", {})
    if not r.invariant or prop not in str(r.invariant):
        ctx.infra("%s: the specification no longer shows the documented deviation (expected %s to be violated, TLC: %s)"
                  % (stage, prop, r.summary()))
    if last.get("op") != "AddOptsCollisionClearsPrimary":
        ctx.infra("%s: %s is violated by %s, expected only AddOptsCollisionClearsPrimary" % (stage, prop, last))
    ctx.stage(stage, expected_violation=prop, by_action=last.get("op"), counterexample_length=r.trace_len,
              generated=r.generated, distinct=r.distinct)
    ctx.log("%s: %s violated by %s after %d states, as documented" % (stage, prop, last.get("op"), r.trace_len))


def run(ctx):
    ctx.cov["rule"] = (
        "(M) all reachable states of KeysetHandle.tla within the stated constants (C11 actions taken over verbatim + AddKeyWithOpts "
        "with option lists, SetAnnotations, Len/Entry/Primary/Public/KeysetInfo/String, NewHandle, the constructors of keyset / "
        "insecurecleartextkeyset / testkeyset); (R) one real execution per transition of a manager-centred graph (transition tour), "
        "per row of the AddKeyWithOpts decision table (every option list up to length 2 [3], every ID requirement, 6 manager "
        "states) and per row of the handle table (every well-formed keyset of <= 2 keys x status x ID requirement x kind of "
        "material x annotations: every accessor, Public, 7 constructors, then every accessor on the derived handle); (T) seeded "
        "random histories of 40-120 calls over <= 10 ids, 1-3 managers, <= 6 live handles; after EVERY call the projection of "
        "every manager and every live handle is compared with the specification by TLC")
    ctx.assumptions += [
        "exhaustive only within the model constants (ID = 1..3, <= 3 entries, <= 2 handles; option lists <= 3)",
        "the kind of key material (PRIVATE / PUBLIC / SYMMETRIC) is read off the key's proto serialization; keys without a "
        "proto serialization are outside the driver's key population",
        "behaviour that the library does not document (error conditions of the internal AddKeyWithOpts, nil receivers, "
        "annotations of derived handles) is modelled as the code does it and only recorded (coverage['observations'])"]
    verdicts = Verdicts(ctx)

    # ---------------- (M)
    props_note = "C11 invariants + action properties, PrimaryNeverLost, AddOptsPost, AccessorsPure, DerivedHandlesAgree, NoSecretsGuard"
    mc = [("MC_KeysetHandle_dev_rest", "M:AddKeyWithOpts (40 option lists, incl. the deviation) x C11 ops, ID=1..3, <=2 entries, <=1 handle"),
          ("MC_KeysetHandle_mix_quick", "M:3 kinds of material x annotations, ID=1..2, <=1 entry, <=2 handles"),
          ("MC_KeysetHandle_two", "M:two managers (isolation), ID=1..2, <=1 entry"),
          ("MC_KeysetHandle_table_quick", "M:AddKeyWithOpts decision table, every option list <= 2"),
          ("MC_KeysetHandle_htable_quick", "M:handle API table, keysets <= 2 keys over ID=1..2")]
    if ctx.thorough:
        mc = [("MC_KeysetHandle_mix", "M:2 kinds of material x annotations, ID=1..2, <=2 entries, <=2 handles"),
              ("MC_KeysetHandle_dev_rest3", "M:AddKeyWithOpts (85 option lists, incl. the deviation) x C11 ops, ID=1..3, <=3 entries, <=1 handle"),
              ("MC_KeysetHandle_opts", "M:AddKeyWithOpts (40 option lists, no deviation) x C11 ops, ID=1..3, <=3 entries, <=1 handle"),
              ("MC_KeysetHandle_mix1", "M:3 kinds of material x 3 annotation values, ID=1..2, <=2 entries, <=1 handle"),
              ("MC_KeysetHandle_table", "M:AddKeyWithOpts decision table, every option list <= 3"),
              ("MC_KeysetHandle_htable", "M:handle API table, keysets <= 2 keys over ID=1..3, 3 kinds of material")] + mc[:3]
    skip_m = bool(os.environ.get("VERIF_X04_SKIP_M")) and bool(os.environ.get("VERIF_REPO"))
    if skip_m:
        ctx.log("NOTE: (M) skipped (mutation trial against VERIF_REPO: the model-checking stage does not involve the code; not evidence)")
    # (M) does not involve the code: it runs in the background while the conformance stages (R), (T) run
    pool = cf.ThreadPoolExecutor(max_workers=12)
    futs = []
    if not ctx.replay and not skip_m:
        # the largest configurations get several workers (vlib runs one multi-worker TLC at a time), the others one each
        nbig = 2
        futs = [pool.submit(ctx.model_check, "MC_KeysetHandle", cfg, stage=st, workers=(6 if i < nbig else 1), heap="6g", timeout=3400,
                            must_cover=False)
                for i, (cfg, st) in enumerate(mc)]
        futs += [pool.submit(expect_violation, ctx, "MC_KeysetHandle_dev_err", "ErrLeavesUnchanged",
                             "M:EXPECTED violation of C11 ErrLeavesUnchanged by AddKeyWithOpts"),
                 pool.submit(expect_violation, ctx, "MC_KeysetHandle_dev_primary", "PrimaryNeverLost",
                             "M:EXPECTED violation of PrimaryNeverLost by AddKeyWithOpts")]
        ctx.stage("M:properties", checked=props_note)
    try:
        conformance(ctx, verdicts)
    finally:
        errs = []
        for f in futs:
            try:
                f.result()
            except Exception as ex:  # noqa
                errs.append(ex)
        pool.shutdown()
    if errs:
        raise errs[0]
    verdicts.settle()
    if not ctx.violations and not ctx.replay:
        ctx.negative_control("Trace_KeysetHandle", ctx.x04_random_trace, corrupt, reset="reset")


def conformance(ctx, verdicts):
    drv = ctx.go_build("x04")
    if ctx.replay:
        obj = json.load(open(ctx.replay))
        if "scenario" not in obj:
            ctx.infra("replay file has no scenario (random history: re-run with VERIF_SEED=%s)" % obj.get("seed"))
        plan = os.path.join(ctx.scratch, "replay.plan")
        open(plan, "w").write(json.dumps(obj["scenario"]) + "\n")
        trace = os.path.join(ctx.scratch, "replay.ndjson")
        ctx.run([drv, "-out", trace, "-plan", plan])
        mism, _ = ctx.validate_events("Trace_KeysetHandle", trace, reset="reset")
        verdicts.take(mism, trace, [obj["scenario"]])
        return

    # ---------------- (R) TLC-generated cases on real objects
    sfx = "" if ctx.thorough else "_quick"
    graphs = [("plan_mgr" + sfx, "R:manager graph", empty_state, None),
              ("table" + sfx, "R:AddKeyWithOpts decision table", lambda s: not s["handles"], None),
              ("htable" + sfx, "R:handle API table", lambda s: len(s["handles"]) == 1, None)]

    def gen(g):
        name = g[0]
        edges = os.path.join(ctx.scratch, "edges-%s.ndjson" % name)
        r = ctx.tlc("MC_KeysetHandle", "MC_KeysetHandle_" + name, workers=1, heap="6g", timeout=3000, env={"VERIF_EDGES": edges})
        if not r.ok:
            ctx.infra("graph %s: %s" % (name, r.error or r.summary()))
        return edges

    with cf.ThreadPoolExecutor(max_workers=3) as ex:
        edge_files = list(ex.map(gen, graphs))
    traces = []
    for (name, stage, is_init, targets), edges in zip(graphs, edge_files):
        plan = os.path.join(ctx.scratch, "plan-%s.ndjson" % name)
        ns, ne, cov, nsc, nst = build_plan(edges, plan, ctx.rng, is_init, targets=targets)
        os.remove(edges)
        if cov != ne or ne == 0:
            ctx.infra("%s: transition tour covers %d of %d edges" % (stage, cov, ne))
        ctx.log("%s: %d states, %d edges -> %d scenarios, %d calls" % (stage, ns, ne, nsc, nst))
        tr = os.path.join(ctx.scratch, "x04-%s.ndjson" % name)
        ctx.run([drv, "-out", tr, "-plan", plan])
        mism, n = ctx.validate_events("Trace_KeysetHandle", tr, reset="reset", stage=stage + " replayed", max_findings=3)
        ctx.stage(stage, graph_states=ns, graph_edges=ne, edges_covered=cov, scenarios=nsc, calls=nst)
        scen = [json.loads(x) for x in open(plan)]
        verdicts.take(mism, tr, scen)
        ctx.cov["traces_validated_against_impl"] += nsc
        ctx.sample({stage: scen[len(scen) // 2]})
        traces.append(tr)

    # ---------------- (T) random histories
    ntr = 3000 if ctx.thorough else 150
    tr2 = os.path.join(ctx.scratch, "x04-random.ndjson")
    ctx.run([drv, "-out", tr2, "-random", str(ntr)])
    mism2, n2 = ctx.validate_events("Trace_KeysetHandle", tr2, reset="reset", stage="T:random histories", max_findings=3)
    verdicts.take(mism2, tr2, note="random history; re-run with the same VERIF_SEED")
    ctx.cov["traces_validated_against_impl"] += ntr
    traces.append(tr2)
    lines = open(tr2).read().splitlines()
    for k in (5, len(lines) // 2):
        ctx.sample(json.loads(lines[k]))
    ctx.cov["observations"] = observations(traces) + [dict(behaviour=s, calls_observed=0) for s in STATIC_OBSERVATIONS]
    ctx.x04_random_trace = tr2


MANIFEST = dict(
    category="model_checking",
    text=("KeysetHandle.tla extends KeysetManager.tla (C11, read-only INSTANCE) by the rest of keyset.Manager (AddKeyWithOpts with "
          "WithStatus / WithFixedID / AsPrimary folded in the order given, SetAnnotations) and by keyset.Handle as an immutable "
          "value: Len, Entry(i), Primary, Public, KeysetInfo, String, NewHandle (= Add + SetPrimary + Handle), the constructors "
          "and KeysetMaterial of keyset / insecurecleartextkeyset / testkeyset, write/read under a KEK.  TLC checks every C11 "
          "clause over histories mixing old and new operations; the documented deviation of AddKeyWithOpts (AsPrimary + id in use "
          "clears the primaries, then errors) is its own action and two configurations EXPECT its counterexample.  Every edge "
          "of a manager-centred graph, every row of the AddKeyWithOpts decision table and of the handle-API table, and seeded "
          "random histories are executed on real objects; TLC validates every recorded call."),
    note=("Growth check (not one of the 20 listed properties).  Undocumented behaviour is modelled as the code does it and listed "
          "under coverage.observations; a difference there is exit 2, a contradiction of documented behaviour is a VIOLATION.  "
          "Hooks: keyset.VerifAnnotations (manager, handle), Manager.VerifKeys; verifhooks.ManagerAddKeyWithOpts."),
    technique="TLA+ state machine + TLC exhaustive model checking + transition-tour / decision-table replay into real code + TLC trace validation",
    design_ref="DESIGN.md section 8 (growth), section 9 (AddKeyWithOpts deviation), section 6 C11",
)
