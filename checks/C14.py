"""C14 - Untrusted keyset input is rejected or yields a well-formed handle, never a panic.

(M) TLC checks KeysetValidate.tla on every abstract keyset within the bounds: the rule as the property
    states it coincides with the procedure of keyset/validation.go, Valid keysets project to well-formed
    handles, every named defect is rejected, every mutation operator does to validity what its name says;
(R) TLC writes the abstract keysets (Plan_KeysetValidate) and the key-level cases (Plan_KeysetKeys:
    every key type x base key x single-field boundary edit); harness/cmd/c14 instantiates them with real
    keys and pushes them through every entry point that makes a keyset.Handle, then creates and uses a
    primitive through the class factory;
(T) TLC-planned byte/text mutation sequences (Plan_KeysetBytes) and, thorough tier, Go's fuzzing engine
    as an input source; every recorded outcome is judged by Trace_KeysetValidate (TLC)."""
import glob
import json
import os
import shutil
import subprocess

TRACE = "Trace_KeysetValidate"


def corrupt(ev, rng):
    """Negative control: make one rejected entry point of a rule-rejected keyset look accepted, or spoil an
    accepted handle's projection, or flip a primitive's self-consistency."""
    ev = json.loads(json.dumps(ev))
    outs = ev.get("outs") or []
    acc = [g for g in outs if g["out"] == "handle"]
    choice = rng.randrange(4)
    if choice == 0 and acc and acc[0]["h"]:
        h = acc[0]["h"]
        k = rng.randrange(len(h))
        h[k]["status"] = 0
        ev["_corrupted"] = "outs.h.status -> unknown"
        return ev
    if choice == 1 and acc and acc[0]["h"]:
        for x in acc[0]["h"]:
            x["primary"] = False
        ev["_corrupted"] = "outs.h.primary -> none"
        return ev
    if choice == 2 and acc and acc[0]["prim"]["created"] and acc[0]["prim"]["produced"] and \
            acc[0]["prim"]["kind"] in ("roundtrip", "verify", "det") and (ev.get("obs") or {}).get("@type") != "SlhDsaPrivateKey":
        acc[0]["prim"]["consumed"] = False
        ev["_corrupted"] = "outs.prim.consumed -> false"
        return ev
    if choice == 3 and outs and ev["ev"] in ("load", "bytes"):
        g = rng.choice(outs)
        g["out"] = "panic"
        g["where"] = "load"
        ev["_corrupted"] = "outs.out -> panic"
        return ev
    return None


def signature(m):
    e = m["event"]
    what = m["bad"][0]
    if e["ev"] == "load":
        return "structural %s: %s" % ("/".join(sorted(set(x for g in e["outs"] for x in g["entries"] if g["out"] != "error"))[:3]), what)
    if e["ev"] == "key":
        return "key %s/%s %s: %s" % (e.get("type"), e.get("base"), e.get("edit", ""), what)
    return "bytes %s: %s" % (e.get("form", ""), what)


def expectations(ctx, trace):
    """Coverage expectations (exit 2, never a verdict): the reader model of KeysetValidate.tla predicts which entry
    points accept each planned case; the handle shows the keys that went in."""
    n_acc = n = 0
    for line in open(trace):
        e = json.loads(line)
        if e["ev"] != "load":
            continue
        n += 1
        acc = set(x for g in e["outs"] if g["out"] == "handle" for x in g["entries"])
        n_acc += len(acc)
        if acc != set(e["expect"]):
            pan = [g for g in e["outs"] if g["out"] == "panic"]
            if pan:
                continue     # judged by TLC
            raise ctx.infra("model out of date: case %d accepted at %s, reader model predicts %s; keyset %s" % (
                e["n"], sorted(acc), sorted(e["expect"]), json.dumps(e["ks"])))
        for g in e["outs"]:
            if g["out"] != "handle":
                continue
            want = [(k["id"], k["status"], k["prefix"], k["id"] == e["ks"]["primary"], k["prefix"] != 3) for k in e["ks"]["keys"]]
            got = [(k["id"], k["status"], k["prefix"], k["primary"], k["hasReq"]) for k in g["h"]]
            if want != got:
                raise ctx.infra("model out of date: handle of case %d does not show the keys that went in: %s vs %s" % (e["n"], got, want))
            if any(k["hasReq"] and k["req"] != k["id"] for k in g["h"]):
                raise ctx.infra("model out of date: id requirement differs from the key id in case %d: %s" % (e["n"], g["h"]))
    return n, n_acc


def key_expectations(ctx, trace):
    """Coverage expectations of the key-level stage (exit 2): every unchanged valid base key is accepted under the
    prefixes its type supports and yields a usable, self-consistent primitive; the weak bases are exercised."""
    st = dict(accepted=0, usable=0, rejected=0, below_minimum_seen=0, types=set())
    ok_unchanged = {}
    for line in open(trace):
        e = json.loads(line)
        st["types"].add(e["type"])
        acc = [g for g in e["outs"] if g["out"] == "handle"]
        prim = [g["prim"] for g in acc if g["prim"]["fam"] != "skipped"]
        if acc:
            st["accepted"] += 1
            if prim and prim[0]["created"] and prim[0]["produced"]:
                st["usable"] += 1
        else:
            st["rejected"] += 1
        if e["edit"] == "unchanged":
            k = (e["type"], e["base"])
            good = bool(prim) and prim[0]["created"] and (prim[0]["kind"] == "consume-only" or (prim[0]["produced"] and prim[0]["consumed"]))
            ok_unchanged[k] = ok_unchanged.get(k, False) or good
    # bases the library is expected NOT to turn into a primitive: below-minimum ones, P-256 with SHA-512, and ECIES over
    # X25519 (key and parameters exist, hybrid.New* answers "unsupported curve")
    weak = ("SHA1", "SHA224", "P384_SHA256", "P521_SHA256", "P521_SHA384", "RSA1024", "RSA2047", "_E3", "_E17", "_E65539", "_EMAX", "P256_SHA512",
            "ECIES_X25519")
    for (t, b), good in sorted(ok_unchanged.items()):
        is_weak = any(w in b for w in weak)
        if is_weak:
            st["below_minimum_seen"] += 1
        if not good and not is_weak:
            raise ctx.infra("model out of date: unchanged base key %s/%s is not accepted-and-usable under any prefix" % (t, b))
    st["types"] = len(st["types"])
    return st


def judge(ctx, trace, stage, replay_of):
    n_ev = sum(1 for _ in open(trace))
    shards = 16 if ctx.thorough else max(1, min(5, n_ev // 2500))
    mism, n = ctx.validate_events(TRACE, trace, stage=stage, shards=shards, heap="4g")
    for m in mism:
        ctx.violation(signature(m), "%s (spec: %s)" % (m["bad"][0], m["bad"][1:]),
                      dict(event=m["event"], spec_says=m["bad"], **replay_of(m["event"])))
    return mism, n


def run(ctx):
    ctx.cov["rule"] = ("(M) every abstract keyset of <= 2 keys over the full per-key domain (quick) / <= 3 keys over the "
                       "reduced domain (thorough); (R) TLC-enumerated abstract keysets (all of <= 1 key, all 2-key keysets "
                       "with one full-domain key, all 3-key keysets over the reduced domain; quick: seeded sample + every "
                       "Valid 3-key keyset + their single-mutation neighbours) x {secret, public} material, each pushed "
                       "through 15 entry points")
    ctx.assumptions += ["byte-level input space is explored (planned mutations, fuzzing), not exhausted",
                        "abstract ids are enumerated up to renaming; concrete ids drawn from {0,1,2,2^31-1,2^31,2^32-1,...}"]
    only = set(filter(None, os.environ.get("VERIF_C14_ONLY", "").split(",")))   # development aid: run a subset of stages
    on = lambda st: not only or st in only
    if only:
        ctx.log("NOTE: only stages %s (VERIF_C14_ONLY; not evidence)" % sorted(only))
    tlc_seed = ["-seed", str(ctx.seed)]
    drv = ctx.go_build("c14")
    if ctx.replay:
        obj = json.load(open(ctx.replay))
        if obj.get("mode") == "crasher":
            return replay_crasher(ctx, obj)
        trace = os.path.join(ctx.scratch, "replay.ndjson")
        plan = os.path.join(ctx.scratch, "replay.plan")
        open(plan, "w").write(json.dumps(obj["row"]) + "\n")
        ctx.run([drv, "-mode", obj["mode"], "-plan", plan, "-out", trace, "-n0", str(obj["n"] - 1)],
                env=ctx.env(VERIF_SEED=obj["seed"]))
        mism, n = ctx.validate_events(TRACE, trace)
        for m in mism:
            ctx.violation("replay", "%s (spec: %s)" % (m["bad"][0], m["bad"][1:]), dict(event=m["event"], spec_says=m["bad"]))
        return
    # ---------------- (M)
    if ctx.thorough and on("M"):
        ctx.model_check("MC_KeysetValidate", "MC_KeysetValidate", stage="M:<=3 keys, reduced per-key domain", workers=2, timeout=3000)
    if on("M"):
        ctx.model_check("MC_KeysetValidate", "MC_KeysetValidate_quick", stage="M:<=2 keys, full per-key domain", workers=1)
        ctx.model_check("MC_KeysetValidate", "MC_KeysetValidate_three", stage="M:<=3 keys, small per-key domain", workers=1)
    if on("structural"):
        stage_structural(ctx, drv, tlc_seed)
    if on("keys"):
        stage_keys(ctx, drv)
    if on("bytes"):
        stage_bytes(ctx, drv, tlc_seed)
    if ctx.thorough and on("fuzz"):
        fuzz_stage(ctx, int(os.environ.get("VERIF_FUZZTIME", "240")))


def stage_structural(ctx, drv, tlc_seed):
    # ---------------- (R) structural
    plan = os.path.join(ctx.scratch, "plan-structural.ndjson")
    r = ctx.tlc("Plan_KeysetValidate", workers=1, heap="6g", extra=tlc_seed, timeout=3000,
                env={"VERIF_OUT": plan, "VERIF_SAMPLE2": 800, "VERIF_SAMPLE3": 800, "VERIF_NEAR3": 30})
    if not r.ok:
        raise ctx.infra("structural plan: %s" % (r.error or r.summary()))
    rows = open(plan).read().splitlines()
    ctx.log("structural plan: %d abstract keysets" % len(rows))
    tr = os.path.join(ctx.scratch, "c14-structural.ndjson")
    out = ctx.run([drv, "-mode", "structural", "-plan", plan, "-out", tr])
    # the oracle first; the reader model's predictions (coverage expectations) only when the oracle has no complaint
    mism, n = judge(ctx, tr, "R:structural keysets through every entry point",
                    lambda e: dict(mode="structural", n=e["n"], row=json.loads(rows[e["n"] - 1])))
    if not mism:
        ncase, nacc = expectations(ctx, tr)
        ctx.stage("R:structural", cases=ncase, entry_points=15, accepted_loads=nacc)
    ctx.cov["traces_validated_against_impl"] += n
    lines = open(tr).read().splitlines()
    for k in (len(lines) // 3, len(lines) // 2):
        ctx.sample(json.loads(lines[k]))
    if not mism:
        ctx.negative_control(TRACE, tr, corrupt, window=120, stage="NC:structural")


def stage_keys(ctx, drv):
    # ---------------- (R) key level
    kplan = os.path.join(ctx.scratch, "plan-keys.ndjson")
    r = ctx.tlc("Plan_KeysetKeys", workers=1, heap="4g", env={"VERIF_OUT": kplan}, timeout=1800)
    if not r.ok:
        raise ctx.infra("key plan: %s" % (r.error or r.summary()))
    krows = open(kplan).read().splitlines()
    ktr = os.path.join(ctx.scratch, "c14-keys.ndjson")
    ctx.run([drv, "-mode", "keys", "-plan", kplan, "-out", ktr], timeout=2400)
    kmism, kn = judge(ctx, ktr, "R:key types x base keys x field edits",
                      lambda e: dict(mode="keys", n=e["n"], row=json.loads(krows[e["n"] - 1])))
    if not kmism:
        kstats = key_expectations(ctx, ktr)
        ctx.stage("R:keys", cases=len(krows), **kstats)
        ctx.log("key plan: %d cases; %s" % (len(krows), kstats))
    ctx.cov["traces_validated_against_impl"] += kn
    klines = open(ktr).read().splitlines()
    for k in (len(klines) // 4, len(klines) // 2):
        ctx.sample(json.loads(klines[k]))
    if not kmism:
        ctx.negative_control(TRACE, ktr, corrupt, window=120, stage="NC:keys")


def stage_bytes(ctx, drv, tlc_seed):
    # ---------------- (T) byte level: TLC-planned mutation sequences
    bplan = os.path.join(ctx.scratch, "plan-bytes.ndjson")
    r = ctx.tlc("Plan_KeysetBytes", workers=1, heap="4g", env={"VERIF_OUT": bplan}, extra=tlc_seed, timeout=1800)
    if not r.ok:
        raise ctx.infra("byte plan: %s" % (r.error or r.summary()))
    brows = open(bplan).read().splitlines()
    btr = os.path.join(ctx.scratch, "c14-bytes.ndjson")
    ctx.run([drv, "-mode", "bytes", "-plan", bplan, "-out", btr], timeout=2400)
    bmism, bn = judge(ctx, btr, "T:planned byte/text mutations",
                      lambda e: dict(mode="bytes", n=e["n"], row=json.loads(brows[e["n"] - 1])))
    acc = sum(1 for line in open(btr) if '"out":"handle"' in line)
    ctx.stage("T:bytes", cases=bn, mutants_accepted_somewhere=acc)
    ctx.cov["traces_validated_against_impl"] += bn
    blines = open(btr).read().splitlines()
    ctx.sample(json.loads(blines[len(blines) // 2]))
    if acc == 0:
        raise ctx.infra("no planned mutant was accepted anywhere: the accepted-handle invariants were not exercised")
    if not bmism:
        ctx.negative_control(TRACE, btr, corrupt, window=120, stage="NC:bytes")


def fuzz_workdir(ctx):
    vroot = os.path.dirname(os.path.dirname(os.path.abspath(__file__)))
    work = os.path.join(ctx.scratch, "fz")
    os.makedirs(os.path.join(work, "cmd"))
    mod = open(os.path.join(vroot, "harness", "go.mod")).read()
    alt = os.environ.get("VERIF_REPO")
    if alt:
        mod = mod.replace("=> /repo", "=> " + alt)
    open(os.path.join(work, "go.mod"), "w").write(mod)
    shutil.copy(os.path.join(vroot, "harness", "go.sum"), os.path.join(work, "go.sum"))
    shutil.copytree(os.path.join(vroot, "harness", "vt"), os.path.join(work, "vt"))
    shutil.copytree(os.path.join(vroot, "harness", "cmd", "c14"), os.path.join(work, "cmd", "c14"))
    return work


def replay_crasher(ctx, obj):
    """Re-run a recorded fuzz crasher (Go corpus file format) against the current tree."""
    work = fuzz_workdir(ctx)
    d = os.path.join(work, "cmd", "c14", "testdata", "fuzz", "FuzzKeysetReaders")
    os.makedirs(d)
    open(os.path.join(d, "replay"), "w").write(obj["crasher"])
    r = subprocess.run(["go", "test", "-tags", "verif", "-run", "FuzzKeysetReaders/replay", "./cmd/c14"], cwd=work, env=ctx.env(),
                       capture_output=True, text=True, timeout=1800)
    if r.returncode != 0:
        ctx.violation("replay", "the crasher still kills the test process: " + (r.stdout + r.stderr)[-600:], dict(mode="crasher", crasher=obj["crasher"]))


def fuzz_stage(ctx, budget_s):
    """Go's native fuzzing engine as an input source (thorough tier): run in a scratch copy of the harness module (so
    that crashers and corpus files never land in /verif), honouring VERIF_REPO; the logged outcomes are judged by TLC."""
    work = fuzz_workdir(ctx)
    log = os.path.join(ctx.scratch, "fuzzlog")
    env = ctx.env(C14_FUZZ_LOG=log)
    argv = ["go", "test", "-tags", "verif", "-run", "XXX_none", "-fuzz", "FuzzKeysetReaders", "-fuzztime", "%ds" % budget_s,
            "-parallel", "6", "./cmd/c14"]
    try:
        r = subprocess.run(argv, cwd=work, env=env, capture_output=True, text=True, timeout=budget_s + 900)
    except subprocess.TimeoutExpired:
        raise ctx.infra("go test -fuzz did not finish")
    tail = (r.stdout + r.stderr)[-3000:]
    crashers = sorted(glob.glob(os.path.join(work, "cmd", "c14", "testdata", "fuzz", "FuzzKeysetReaders", "*")))
    execs = 0
    for line in r.stdout.splitlines():
        if "execs:" in line:
            try:
                execs = int(line.split("execs:")[1].split()[0])
            except ValueError:
                pass
    if r.returncode != 0:
        if not crashers:
            raise ctx.infra("go test -fuzz failed without a crasher: " + tail)
        for c in crashers:
            ctx.violation("fuzz crash (unrecoverable) in a keyset reader", "the fuzz worker died on this input; go test output: " + tail[-600:],
                          dict(mode="crasher", crasher=open(c).read()))
    tr = os.path.join(ctx.scratch, "c14-fuzz.ndjson")
    with open(tr, "w") as out:
        for f in sorted(glob.glob(log + ".*")):
            for line in open(f):
                if line.endswith("\n") and line.strip():
                    out.write(line)
    n = sum(1 for _ in open(tr))
    ctx.stage("T:go-fuzz", execs=execs, logged_events=n, fuzztime_s=budget_s, crashers=len(crashers))
    ctx.log("go fuzz: %d execs, %d logged events" % (execs, n))
    if n == 0:
        raise ctx.infra("fuzz stage logged nothing: " + tail)
    judge(ctx, tr, "T:fuzz-generated inputs",
          lambda e: dict(mode="bytes", n=e["n"], row=dict(seed=0, form=e["form"], ops=[], input=e["input"])))
    ctx.cov["traces_validated_against_impl"] += n


MANIFEST = dict(
    category="model_checking",
    text=("KeysetValidate.tla states the keyset rule of the property, transcribes keyset/validation.go, models every "
          "reader entry point and the minimum-strength table. TLC checks the rule/procedure equivalence and the "
          "well-formedness of every accepted outcome on all abstract keysets within the bounds, then writes the abstract "
          "keysets and key-level boundary cases that the driver instantiates with real keys and pushes through all 15 "
          "entry points; every recorded outcome (error / handle projection / panic, primitive creation and use) is judged "
          "by TLC."),
    note=("Structural level exhaustive within the stated bounds; byte level explored (planned mutations, fuzzing as an "
          "input source), not exhausted."),
    technique="TLA+ decision procedure + TLC model checking + TLC-generated cases replayed into real code + TLC trace validation",
    design_ref="DESIGN.md section 6, C14",
)
