"""C14 - Untrusted keyset input is rejected or yields a well-formed handle, never a panic.

(M) TLC checks KeysetValidate.tla on every abstract keyset within the bounds: the rule as the property
    states it coincides with the procedure of keyset/validation.go, Valid keysets project to well-formed
    handles, every named defect is rejected, every mutation operator does to validity what its name says;
(R) TLC writes the abstract keysets (Plan_KeysetValidate) and the key-level cases (Plan_KeysetKeys:
    every key type x base key x single-field boundary edit); harness/cmd/c14 instantiates them with real
    keys and pushes them through every entry point that makes a keyset.Handle, then creates and uses a
    primitive through the class factory;
(T) TLC-planned byte/text mutation sequences (Plan_KeysetBytes) and, thorough tier, Go's fuzzing engine
    as an input source; every recorded outcome is judged by Trace_KeysetValidate (TLC)."""
import json
import os

TRACE = "Trace_KeysetValidate"


def corrupt(ev, rng):
    """Negative control: make one rejected entry point of a rule-rejected keyset look accepted, or spoil an
    accepted handle's projection, or flip a primitive's self-consistency."""
    ev = json.loads(json.dumps(ev))
    outs = ev.get("outs") or []
    acc = [g for g in outs if g["out"] == "handle"]
    choice = rng.randrange(4)
    if choice == 0 and acc and acc[0]["h"]:
        h = acc[0]["h"]
        k = rng.randrange(len(h))
        h[k]["status"] = 0
        ev["_corrupted"] = "outs.h.status -> unknown"
        return ev
    if choice == 1 and acc and acc[0]["h"]:
        for x in acc[0]["h"]:
            x["primary"] = False
        ev["_corrupted"] = "outs.h.primary -> none"
        return ev
    if choice == 2 and acc and acc[0]["prim"]["created"] and acc[0]["prim"]["produced"] and \
            acc[0]["prim"]["kind"] in ("roundtrip", "verify", "det") and not ev.get("exempt"):
        acc[0]["prim"]["consumed"] = False
        ev["_corrupted"] = "outs.prim.consumed -> false"
        return ev
    if choice == 3 and outs and ev["ev"] in ("load", "bytes"):
        g = rng.choice(outs)
        g["out"] = "panic"
        g["where"] = "load"
        ev["_corrupted"] = "outs.out -> panic"
        return ev
    return None


def signature(m):
    e = m["event"]
    what = m["bad"][0]
    if e["ev"] == "load":
        return "structural %s: %s" % ("/".join(sorted(set(x for g in e["outs"] for x in g["entries"] if g["out"] != "error"))[:3]), what)
    if e["ev"] == "key":
        return "key %s %s: %s" % (e.get("type"), e.get("edit", ""), what)
    return "bytes %s: %s" % (e.get("form", ""), what)


def expectations(ctx, trace):
    """Coverage expectations (exit 2, never a verdict): the reader model of KeysetValidate.tla predicts which entry
    points accept each planned case; the handle shows the keys that went in."""
    n_acc = n = 0
    for line in open(trace):
        e = json.loads(line)
        if e["ev"] != "load":
            continue
        n += 1
        acc = set(x for g in e["outs"] if g["out"] == "handle" for x in g["entries"])
        n_acc += len(acc)
        if acc != set(e["expect"]):
            pan = [g for g in e["outs"] if g["out"] == "panic"]
            if pan:
                continue     # judged by TLC
            raise ctx.infra("model out of date: case %d accepted at %s, reader model predicts %s; keyset %s" % (
                e["n"], sorted(acc), sorted(e["expect"]), json.dumps(e["ks"])))
        for g in e["outs"]:
            if g["out"] != "handle":
                continue
            want = [(k["id"], k["status"], k["prefix"], k["id"] == e["ks"]["primary"], k["prefix"] != 3) for k in e["ks"]["keys"]]
            got = [(k["id"], k["status"], k["prefix"], k["primary"], k["hasReq"]) for k in g["h"]]
            if want != got:
                raise ctx.infra("model out of date: handle of case %d does not show the keys that went in: %s vs %s" % (e["n"], got, want))
            if any(k["hasReq"] and k["req"] != k["id"] for k in g["h"]):
                raise ctx.infra("model out of date: id requirement differs from the key id in case %d: %s" % (e["n"], g["h"]))
    return n, n_acc


def key_expectations(ctx, trace):
    """Coverage expectations of the key-level stage (exit 2): every unchanged valid base key is accepted under the
    prefixes its type supports and yields a usable, self-consistent primitive; the weak bases are exercised."""
    st = dict(accepted=0, usable=0, rejected=0, below_minimum_seen=0, types=set())
    ok_unchanged = {}
    for line in open(trace):
        e = json.loads(line)
        st["types"].add(e["type"])
        acc = [g for g in e["outs"] if g["out"] == "handle"]
        prim = [g["prim"] for g in acc if g["prim"]["fam"] != "skipped"]
        if acc:
            st["accepted"] += 1
            if prim and prim[0]["created"] and prim[0]["produced"]:
                st["usable"] += 1
        else:
            st["rejected"] += 1
        if e["edit"] == "unchanged":
            k = (e["type"], e["base"])
            good = bool(prim) and prim[0]["created"] and (prim[0]["kind"] == "consume-only" or (prim[0]["produced"] and prim[0]["consumed"]))
            ok_unchanged[k] = ok_unchanged.get(k, False) or good
    weak = ("SHA1", "SHA224", "P384_SHA256", "P521_SHA256", "P521_SHA384", "RSA1024", "RSA2047", "_E3", "_E65539", "P256_SHA512")
    for (t, b), good in sorted(ok_unchanged.items()):
        is_weak = any(w in b for w in weak)
        if is_weak:
            st["below_minimum_seen"] += 1
        if not good and not is_weak:
            raise ctx.infra("model out of date: unchanged base key %s/%s is not accepted-and-usable under any prefix" % (t, b))
    st["types"] = len(st["types"])
    return st


def judge(ctx, trace, stage, replay_of):
    mism, n = ctx.validate_events(TRACE, trace, stage=stage)
    for m in mism:
        ctx.violation(signature(m), "%s (spec: %s)" % (m["bad"][0], m["bad"][1:]),
                      dict(event=m["event"], spec_says=m["bad"], **replay_of(m["event"])))
    return mism, n


def run(ctx):
    ctx.cov["rule"] = ("(M) every abstract keyset of <= 2 keys over the full per-key domain (quick) / <= 3 keys over the "
                       "reduced domain (thorough); (R) TLC-enumerated abstract keysets (all of <= 1 key, all 2-key keysets "
                       "with one full-domain key, all 3-key keysets over the reduced domain; quick: seeded sample + every "
                       "Valid 3-key keyset + their single-mutation neighbours) x {secret, public} material, each pushed "
                       "through 12 entry points")
    ctx.assumptions += ["byte-level input space is explored (planned mutations, fuzzing), not exhausted",
                        "abstract ids are enumerated up to renaming; concrete ids drawn from {0,1,2,2^31-1,2^31,2^32-1,...}"]
    tlc_seed = ["-seed", str(ctx.seed)]
    drv = ctx.go_build("c14")
    if ctx.replay:
        obj = json.load(open(ctx.replay))
        trace = os.path.join(ctx.scratch, "replay.ndjson")
        plan = os.path.join(ctx.scratch, "replay.plan")
        open(plan, "w").write(json.dumps(obj["row"]) + "\n")
        ctx.run([drv, "-mode", obj["mode"], "-plan", plan, "-out", trace, "-n0", str(obj["n"] - 1)],
                env=ctx.env(VERIF_SEED=obj["seed"]))
        mism, n = ctx.validate_events(TRACE, trace)
        for m in mism:
            ctx.violation("replay", "%s (spec: %s)" % (m["bad"][0], m["bad"][1:]), dict(event=m["event"], spec_says=m["bad"]))
        return
    # ---------------- (M)
    if ctx.thorough:
        ctx.model_check("MC_KeysetValidate", "MC_KeysetValidate", stage="M:<=3 keys, reduced per-key domain", workers=6, timeout=2400)
    ctx.model_check("MC_KeysetValidate", "MC_KeysetValidate_quick", stage="M:<=2 keys, full per-key domain", workers=2)
    # ---------------- (R) structural
    plan = os.path.join(ctx.scratch, "plan-structural.ndjson")
    r = ctx.tlc("Plan_KeysetValidate", workers=1, heap="6g", env={"VERIF_OUT": plan}, extra=tlc_seed, timeout=1800)
    if not r.ok:
        raise ctx.infra("structural plan: %s" % (r.error or r.summary()))
    rows = open(plan).read().splitlines()
    ctx.log("structural plan: %d abstract keysets" % len(rows))
    tr = os.path.join(ctx.scratch, "c14-structural.ndjson")
    out = ctx.run([drv, "-mode", "structural", "-plan", plan, "-out", tr])
    ncase, nacc = expectations(ctx, tr)
    ctx.stage("R:structural", cases=ncase, entry_points=12, accepted_loads=nacc)
    mism, n = judge(ctx, tr, "R:structural keysets through every entry point",
                    lambda e: dict(mode="structural", n=e["n"], row=json.loads(rows[e["n"] - 1])))
    ctx.cov["traces_validated_against_impl"] += ncase
    lines = open(tr).read().splitlines()
    for k in (len(lines) // 3, len(lines) // 2):
        ctx.sample(json.loads(lines[k]))
    if not mism:
        ctx.negative_control(TRACE, tr, corrupt, window=120, stage="NC:structural")
    # ---------------- (R) key level
    kplan = os.path.join(ctx.scratch, "plan-keys.ndjson")
    r = ctx.tlc("Plan_KeysetKeys", workers=1, heap="4g", env={"VERIF_OUT": kplan}, timeout=1800)
    if not r.ok:
        raise ctx.infra("key plan: %s" % (r.error or r.summary()))
    krows = open(kplan).read().splitlines()
    ktr = os.path.join(ctx.scratch, "c14-keys.ndjson")
    ctx.run([drv, "-mode", "keys", "-plan", kplan, "-out", ktr], timeout=2400)
    kstats = key_expectations(ctx, ktr)
    ctx.stage("R:keys", cases=len(krows), **kstats)
    ctx.log("key plan: %d cases; %s" % (len(krows), kstats))
    kmism, kn = judge(ctx, ktr, "R:key types x base keys x field edits",
                      lambda e: dict(mode="keys", n=e["n"], row=json.loads(krows[e["n"] - 1])))
    ctx.cov["traces_validated_against_impl"] += kn
    klines = open(ktr).read().splitlines()
    for k in (len(klines) // 4, len(klines) // 2):
        ctx.sample(json.loads(klines[k]))
    if not kmism:
        ctx.negative_control(TRACE, ktr, corrupt, window=120, stage="NC:keys")


MANIFEST = dict(
    category="model_checking",
    text=("KeysetValidate.tla states the keyset rule of the property, transcribes keyset/validation.go, models every "
          "reader entry point and the minimum-strength table. TLC checks the rule/procedure equivalence and the "
          "well-formedness of every accepted outcome on all abstract keysets within the bounds, then writes the abstract "
          "keysets and key-level boundary cases that the driver instantiates with real keys and pushes through all 12 "
          "entry points; every recorded outcome (error / handle projection / panic, primitive creation and use) is judged "
          "by TLC."),
    note=("Structural level exhaustive within the stated bounds; byte level explored (planned mutations, fuzzing as an "
          "input source), not exhausted."),
    technique="TLA+ decision procedure + TLC model checking + TLC-generated cases replayed into real code + TLC trace validation",
    design_ref="DESIGN.md section 6, C14",
)
