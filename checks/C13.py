"""C13 - Secret key material leaves a handle only via insecure or encrypted paths.

(M) KeysetIO.tla / Secrets.tla are model checked on small constants (the *NoSecrets guard, the key-encryption AEAD with
    associated data, what each writer exposes);
(R) Plan_KeysetIO.tla: every sequence of <= 3 key material types (SYMMETRIC, PRIVATE, PUBLIC, REMOTE, UNKNOWN) with
    representative key types rotating through a catalog, every position, plus singles / pairs / seeded random keysets;
    the driver builds each keyset with real code and runs NewHandleWithNoSecrets, ReadWithNoSecrets, WriteWithNoSecrets,
    String(), KeysetInfo(), every writer and every reader (incl. wrong KEK / wrong AD / both) on it, decodes every
    artifact independently and scans it for every 8-byte window of every key's secret bytes (raw, hex, base64); every
    string-valued output (error texts, fmt %v %+v %#v of handle / entries / key objects / parameters, panic values) is
    scanned too, additionally with backslash escapes (Go, protobuf text-format octal) undone and number lists decoded;
(T) Trace_Secrets.tla judges every record."""
import json
import os
import sys

sys.path.insert(0, os.path.join(os.path.dirname(os.path.dirname(os.path.abspath(__file__))), "lib"))
import vlib  # noqa: E402


def signature(m):
    e = m["event"]
    b = m["bad"]
    extra = " [%s]" % "; ".join(str(x) for x in b[1:3]) if len(b) > 1 else ""
    return "secrets/%s %s%s" % (e["ev"], b[0], extra)


def slim(e):
    e = dict(e)
    if "reads" in e:
        e["reads"] = [r for r in e["reads"] if r["ok"]][:4]
    return e


def corrupt(ev, rng):
    ev = json.loads(json.dumps(ev))
    if ev["ev"] == "handle":
        if not ev["built"]:
            return None
        c = rng.randrange(4)
        if c == 3:
            ev["sec"]["texts"][0]["leak"] = True
            ev["_corrupted"] = "sec.texts.leak"
        elif c == 0:
            ev["sec"]["newHandleNoSecrets"]["ok"] = not ev["sec"]["newHandleNoSecrets"]["ok"]
            ev["_corrupted"] = "sec.newHandleNoSecrets.ok"
        elif c == 1:
            ev["sec"]["string"]["leak"] = True
            ev["_corrupted"] = "sec.string.leak"
        else:
            ev["sec"]["keysetInfo"]["fields"].append("key_info.key_data.value")
            ev["_corrupted"] = "sec.keysetInfo.fields"
        return ev
    c = rng.randrange(5)
    if c == 4:
        rs = [r for r in ev["reads"] if not r["ok"]]
        if not ev["wok"] or not rs:
            ev["wtextleak"] = True
            ev["_corrupted"] = "wtextleak"
        else:
            rs[rng.randrange(len(rs))]["textleak"] = True
            ev["_corrupted"] = "reads.textleak"
        return ev
    if c == 0 and ev["w"]["m"] == "noSecrets":
        ev["wok"] = not ev["wok"]
        if ev["wok"]:
            return None   # a write that did not happen has no blob to describe
        ev["_corrupted"] = "wok"
        return ev
    if not ev["wok"]:
        return None
    if c == 1 and ev["w"]["m"] == "encrypted":
        ev["blob"]["leak"] = True
        ev["_corrupted"] = "blob.leak"
        return ev
    if c == 2 and ev["w"]["m"] == "encrypted":
        ev["blob"]["fields"].append("keysetInfo.keyInfo.keyData" if ev["w"]["f"] == "json" else "keyset_info.key_info.key_data")
        ev["_corrupted"] = "blob.fields"
        return ev
    if c == 3 and ev["w"]["m"] == "encrypted":
        wrong = [r for r in ev["reads"] if r["m"] == "encrypted" and r["f"] == ev["w"]["f"] and not r["ok"]]
        if not wrong:
            return None
        wrong[rng.randrange(len(wrong))]["ok"] = True
        ev["_corrupted"] = "reads(wrong kek/ad).ok"
        return ev
    return None


def run(ctx):
    ctx.cov["rule"] = ("(M) all handles of <= 2 keys over ids x statuses x prefixes x 5 material types, every writer then every reader; "
                       "(R) all sequences of <= 3 material types (155) with catalog representatives rotating over 26 concrete keys (14 "
                       "key types, public halves, KMS-backed REMOTE key data, unregistered UNKNOWN key data), every position, plus "
                       "every single catalog key with ids 0 / 2^32-1, catalog pairs with DISABLED / DESTROYED keys and seeded random "
                       "keysets; per keyset: the three *NoSecrets APIs, String(), KeysetInfo(), 16 writers x 16 readers (wrong KEK, "
                       "wrong AD, both, nil vs empty AD), every artifact decoded independently and scanned for every 8-byte window "
                       "of every secret byte string (raw, hex, base64); every error text, fmt rendering and panic value likewise, also with "
                       "escapes undone (\\ooo, \\xHH) and printed byte lists decoded")
    ctx.assumptions += ["a substring scan cannot see a transformed leak (e.g. XOR-masked key bytes)",
                        "secret byte strings of a key = all of its secretdata.Bytes accessors (found by reflection), 40 random bytes "
                        "inside the value of unregistered key data",
                        "REMOTE material: KmsAeadKey / KmsEnvelopeAeadKey key data (no KMS client involved); UNKNOWN: an unregistered "
                        "type URL with UNKNOWN_KEYMATERIAL"]
    drv = ctx.go_build("c12")
    if ctx.replay:
        tr = os.path.join(ctx.scratch, "replay-sec.ndjson")
        ctx.run([drv, "-mode", "sec", "-replay", ctx.replay, "-out", tr])
        mism, n = ctx.validate_events("Trace_Secrets", tr, shards=1)
        for m in mism:
            if str(m["bad"][0]).startswith("COVERAGE"):
                raise vlib.Infra("replay: %s" % m["bad"])
            ctx.violation("replay", "%s (spec: %s)" % (m["bad"][0], m["bad"][1:]), dict(event=slim(m["event"]), spec_says=m["bad"]))
        return
    if ctx.thorough:
        ctx.model_check("MC_KeysetIO", "MC_KeysetIO", stage="M:KeysetIO/Secrets ids 0..2, <=2 keys, 2 prefixes, 5 materials, 2 keks, 3 ads",
                        workers=4)
    ctx.model_check("MC_KeysetIO", "MC_KeysetIO_quick", stage="M:KeysetIO/Secrets ids 0..1, <=2 keys, 5 materials, 2 keks, 3 ads",
                    workers=1, heap="4g")
    hp = os.path.join(ctx.scratch, "handles.ndjson")
    r = ctx.tlc("Plan_KeysetIO", env=dict(VERIF_HANDLES=hp, VERIF_SETS="mats,singles,pairs,random",
                                          VERIF_PAIRS=100000 if ctx.thorough else 40, VERIF_RANDOM=1500 if ctx.thorough else 40),
                workers=1, timeout=900, heap="3g", extra=("-seed", str(ctx.seed)))
    if not r.ok or not os.path.exists(hp):
        raise vlib.Infra("Plan_KeysetIO failed: %s" % (r.error or r.out[-1500:]))
    nh = sum(1 for x in open(hp) if x.strip())
    ctx.stage("R:Plan_KeysetIO", handles=nh)
    tr = os.path.join(ctx.scratch, "sec.ndjson")
    rr = ctx.run([drv, "-mode", "sec", "-handles", hp, "-out", tr], timeout=2400)
    ctx.log("driver: %d keysets executed in %.1fs" % (nh, rr.wall))
    mism, n = ctx.validate_events("Trace_Secrets", tr, shards=16 if ctx.thorough else 6, stage="T:secrets")
    cov = [m for m in mism if str(m["bad"][0]).startswith("COVERAGE")]
    if cov:
        raise vlib.Infra("model out of date (coverage expectation, not a verdict): %s; event %s"
                         % (cov[0]["bad"], json.dumps(slim(cov[0]["event"]))[:700]))
    for m in mism:
        ctx.violation(signature(m), "%s (spec: %s)" % (m["bad"][0], m["bad"][1:]), dict(event=slim(m["event"]), spec_says=m["bad"]))
    ctx.cov["traces_validated_against_impl"] += nh
    lines = open(tr).read().splitlines()
    nart = nscan = nwrong = 0
    for x in lines:
        e = json.loads(x)
        if e["ev"] == "handle":
            nart += 2
        elif e["wok"]:
            nart += 1
            nwrong += sum(1 for r in e["reads"] if e["w"]["m"] == "encrypted" and r["m"] == "encrypted" and not r["ok"])
    ctx.stage("R:secrets", keysets=nh, artifacts_decoded_and_scanned=nart, wrong_kek_or_ad_reads_refused=nwrong)
    ctx.sample(slim(json.loads(lines[0])))
    ctx.sample(slim(json.loads(lines[len(lines) // 2])))
    # the negative control needs a conforming trace: drop the keysets with a disagreement and, because a signature is
    # reported once per shard, every event of a kind (handle / io) that had one
    bad_n = {m["event"]["n"] for m in mism}
    bad_ev = {m["event"]["ev"] for m in mism}
    clean = os.path.join(ctx.scratch, "sec-clean.ndjson")
    with open(clean, "w") as f:
        for x in lines:
            e = json.loads(x)
            if e["n"] not in bad_n and e["ev"] not in bad_ev:
                f.write(x + "\n")
    if not ctx.violations:    # a negative control needs a conforming trace; with a violation the run fails anyway
        ctx.negative_control("Trace_Secrets", clean, corrupt, window=40, stage="NC:Trace_Secrets")


MANIFEST = dict(
    category="model_checking",
    text=("Secrets.tla (over KeysetIO.tla) specifies the guard of the three *NoSecrets APIs by key material type, the "
          "key-encryption AEAD with associated data (nil == empty) and, per artifact (String(), KeysetInfo(), every writer's "
          "blob), the fields it may populate and whether key bytes may occur. TLC model checks it on small constants; then every "
          "sequence of <= 3 material types (all positions) plus catalog singles / pairs / random keysets is executed on real code "
          "(three *NoSecrets APIs, 16 writers x 16 readers incl. wrong KEK / AD / both), each artifact is decoded independently and "
          "scanned for every 8-byte window of every secret (raw, hex, base64), and TLC judges every record."),
    note=("Substring scanning cannot see a transformed leak. Key types are representatives per material type (26 catalog keys), "
          "not every key type in every position."),
    technique="TLA+ state machine + TLC model checking + TLC-generated keysets replayed into real code + TLC trace validation",
    design_ref="DESIGN.md section 6, C13",
)
