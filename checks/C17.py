"""C17 - Keyset derivation is a deterministic standard function of (keyset, salt)."""
import collections
import json
import os

import vlib

TYPES = {"AESGCM", "XCHACHA", "AESSIV", "HMAC", "HKDFPRF", "HMACPRF", "ED25519", "AESGCMHKDF"}
USES = {"use_aead", "use_sign", "use_mac", "use_daead", "use_prf", "use_stream"}


def _flip_hex(h, rng):
    i = rng.randrange(len(h))
    return h[:i] + ("0" if h[i] != "0" else "1") + h[i + 1:]


def _shapes(ctx):
    """(R) spec -> code: TLC enumerates EVERY well-formed keyset shape (status x key-type class x primary position) of up
    to 3 (quick) / 4 (thorough) keys from PRFSet!WellFormed; the driver instantiates each with real keys."""
    path = os.path.join(ctx.scratch, "shapes.ndjson")
    r = ctx.tlc("Plan_KeysetShapes", env=dict(VERIF_SHAPES=path, VERIF_MAXKEYS=4 if ctx.thorough else 3, VERIF_TYPES=3),
                workers=1, timeout=1200)
    if not r.ok or not os.path.exists(path):
        raise vlib.Infra("Plan_KeysetShapes failed: %s" % (r.error or r.out[-1500:]))
    n = sum(1 for x in open(path) if x.strip())
    ctx.stage("R:Plan_KeysetShapes", shapes=n, max_keys=4 if ctx.thorough else 3)
    ctx.add_states(r)
    return path, n


def corrupt(ev, rng):
    ev = json.loads(json.dumps(ev))
    k = ev["ev"]
    if k == "derive" and ev["ok"] and ev["out"]:
        i = rng.randrange(len(ev["out"]))
        what = rng.choice(["material", "id", "primary", "variant"])
        o = ev["out"][i]
        if what == "material" and o["material"]:
            o["material"] = _flip_hex(o["material"], rng)
        elif what == "id":
            o["id"] = "%08x" % ((int(o["id"], 16) + 1) % 2 ** 32)
        elif what == "primary":
            o["primary"] = not o["primary"]
        else:
            o["variant"] = "CRUNCHY" if o["variant"] != "CRUNCHY" else "TINK"
        ev["out2"] = ev["out"]
        ev["_corrupted"] = "out[%d].%s" % (i, what)
        return ev
    if k == "maprule" and ev["ok"] and ev["material"]:
        ev["material"] = _flip_hex(ev["material"], rng)
        ev["_corrupted"] = "material"
        return ev
    if k == "stream" and ev["out"]:
        ev["out"] = _flip_hex(ev["out"], rng)
        ev["_corrupted"] = "out"
        return ev
    if k == "use_mac":
        ev["tag"] = _flip_hex(ev["tag"], rng)
        ev["_corrupted"] = "tag"
        return ev
    if k == "use_aead":
        ev["ct"] = _flip_hex(ev["ct"], rng)
        ev["_corrupted"] = "ct"
        return ev
    if k == "use_sign":
        ev["sig"] = _flip_hex(ev["sig"], rng)
        ev["_corrupted"] = "sig"
        return ev
    if k == "use_prf" and ev["out"]:
        ev["out"] = _flip_hex(ev["out"], rng)
        ev["_corrupted"] = "out"
        return ev
    return None


def _sig(e, bad):
    k = e["ev"]
    if k == "derive":
        types = sorted({x["d"]["type"] for x in e["ks"]})
        return "keyderivation/%s/DeriveKeyset%s %s%s %s" % (e["route"], "[" + e["kind"] + "]" if e.get("kind") else "", "+".join(types),
                                                             " multi" if len(e["ks"]) > 1 else "", bad[0])
    if k in USES:
        return "keyderivation/derived-key-use/%s/%s %s" % (k, e.get("type"), bad[0])
    if k == "maprule":
        return "keyderivers.DeriveKey/%s %s" % (e["d"]["type"], bad[0])
    return "keyderivation/%s %s" % (k, bad[0])


def _coverage(ctx, trace, n_shapes):
    c = collections.Counter()
    types, used, variants = set(), set(), set()
    multi = 0
    planned = set()
    for line in open(trace):
        e = json.loads(line)
        c[e["ev"]] += 1
        if "inIntact" not in e:
            raise vlib.Infra("C17: event without inIntact: %s" % e["ev"])
        if e["ev"] == "derive" and e.get("kind"):
            c["derive:" + e["kind"]] += 1
        if e["ev"] == "derive" and e.get("route") == "plan":
            planned.add(json.dumps(e["ks"]))
        if e["ev"] == "derive" and e["ok"]:
            for x in e["ks"]:
                types.add(x["d"]["type"])
                variants.add((x["d"]["type"], x["d"]["variant"]))
            multi += len(e["ks"]) > 1
        if e["ev"] in USES:
            if not e["constructed"] and not e["panic"]:
                # which parameterisations have a primitive is a prediction of the driver, not of the property; a primitive
                # that was constructed and then fails to operate IS a usability failure and is judged by the trace spec
                raise vlib.Infra("C17: a derived key the driver expected to be usable has no primitive: %s"
                                 % json.dumps(vlib._shorten(e)))
            used.add(e.get("type"))
    if len(planned) != n_shapes:
        raise vlib.Infra("C17: %d of the %d keyset shapes enumerated by TLC were executed" % (len(planned), n_shapes))
    ctx.cov["keyset_shapes_executed"] = "%d/%d" % (len(planned), n_shapes)
    if types != TYPES:
        raise vlib.Infra("C17: derivable key types not all covered: missing %s" % sorted(TYPES - types))
    if used != TYPES:
        raise vlib.Infra("C17: derived key types not all used through their primitive: missing %s" % sorted(TYPES - used))
    if multi < 20:
        raise vlib.Infra("C17: too few multi-key deriver keysets (%d)" % multi)
    for k in ("distinct", "maprule", "stream", "derive:reuse", "derive:repeat", "derive:walk"):
        if c[k] == 0:
            raise vlib.Infra("C17: event class %s never executed" % k)
    ctx.cov["event_classes"] = dict(sorted(c.items()))
    ctx.cov["type_variant_pairs"] = len(variants)
    ctx.cov["multi_key_deriver_keysets"] = multi


def run(ctx):
    ctx.cov["rule"] = (
        "deriver keysets = every derivable key type (AES-GCM, XChaCha20-Poly1305, AES-SIV, HMAC, HKDF-PRF, HMAC-PRF, Ed25519, "
        "AES-GCM-HKDF streaming) x variant x parameter class x HKDF-PRF hash/salt class/key size x key id (incl. 0, 2^31, "
        "2^32-1), as single-key keysets, as EVERY keyset shape TLC enumerates (Plan_KeysetShapes: status x derived-key class x "
        "primary position, up to 3 keys quick / 4 thorough), as keysets generated by the library from key templates and as generated multi-key keysets (2..5 keys, ENABLED/DISABLED/DESTROYED, primary "
        "position, shared PRF keys, mixed primitive families) x caller salt classes (nil, empty, 1..1000 bytes); each "
        "DeriveKeyset is run twice (equal salts), against a changed salt / PRF key / PRF salt, through the per-key "
        "constructor, and the derived handle is used through the ordinary primitive of its type; the internal per-type "
        "rule and the HKDF stream are driven directly on arbitrary streams / chunkings incl. the 255*HashLen limit. Every "
        "event judged by TLC against Derivation.tla (RFC 5869 in TLA+)")
    ctx.cov["buffers"] = ("the derivation salt lives in ONE reused buffer scribbled over after every call; on the same deriver object "
                          "DeriveKeyset(salt) x2 is followed by DeriveKeyset(other salt of the same length, same buffer) [kind=reuse] "
                          "and DeriveKeyset(salt) again [kind=repeat]; every fourth deriver is additionally walked through the salt-length "
                          "classes growing, shrinking down to empty and growing again incl. strict prefixes of earlier salts "
                          "and the enclosing-buffer sequence salt = buf[:n] then buf[:n+k] without rewriting [kind=walk]; every input has "
                          "sentinel-filled spare capacity and guard zones and the trace spec judges inIntact with the value; each call "
                          "is its own event judged by the reference; constructor inputs, messages, "
                          "AD are scribbled likewise; handles are projected after the scribble")
    ctx.assumptions += ["HMAC/SHA, AES-GCM, ChaCha20-Poly1305, Ed25519 and the AES block are the JDK's",
                        "AES-GCM-HKDF streaming keys: usability is checked against an ordinary Tink key built from the derived "
                        "bytes (no streaming reference in this check); the derived bytes themselves are judged by the reference",
                        "'different salts or PRF keys give different keys' is checked on the enumerated pairs"]
    drv = ctx.go_build("c17")
    trace = ctx.scratch + "/c17.ndjson"
    if ctx.replay:
        ctx.run([drv, "-out", trace, "-replay", ctx.replay])
        mism, n = ctx.validate_events("Trace_Derive", trace)
        for m in mism:
            ctx.violation("replay", "%s (spec expected %s)" % (m["bad"][0], str(m["bad"][1:])[:200]), dict(event=m["event"], spec_says=m["bad"]))
        return
    shapes, n_shapes = _shapes(ctx)
    r = ctx.run([drv, "-out", trace, "-shapes", shapes])
    ctx.log(r.stdout.strip())
    _coverage(ctx, trace, n_shapes)
    import random
    lines = open(trace).read().splitlines()
    random.Random(ctx.seed).shuffle(lines)          # events are independent: balance the TLC shards
    open(trace, "w").write("\n".join(lines) + "\n")
    # large traces are validated in pieces of <= 100k events (16 TLC shards each) to bound the JVM heaps
    mism, n, step, first = [], 0, 100000, None
    for j in range(0, len(lines), step):
        piece = ctx.scratch + "/c17-%d.ndjson" % (j // step)
        open(piece, "w").write("\n".join(lines[j:j + step]) + "\n")
        mm, k = ctx.validate_events("Trace_Derive", piece, max_findings=4, stage="T:Trace_Derive/%d" % (j // step))
        mism += mm
        n += k
        if first is None:
            first = piece
        else:
            os.remove(piece)
    trace = first
    ctx.cov["traces_validated_against_impl"] += 1
    ctx.cov["events"] = n
    for k in (3, len(lines) // 3, len(lines) // 2, len(lines) - 7):
        ctx.sample(json.loads(lines[k]))
    del lines
    bugs = [m for m in mism if m["bad"][0] == "unknown event"]
    if bugs:
        raise vlib.Infra("Trace_Derive: driver/spec inconsistency: %s" % json.dumps(vlib._shorten(bugs[0]))[:1000])
    for m in mism:
        e = m["event"]
        ctx.violation(_sig(e, m["bad"]), "%s (spec expected %s)" % (m["bad"][0], str(m["bad"][1:])[:200]),
                      dict(event=e, spec_says=m["bad"]))
    if not mism:
        ctx.negative_control("Trace_Derive", trace, corrupt)


MANIFEST = dict(
    category="model_checking",
    text=("Every recorded DeriveKeyset call of the real code (all eight derivable key types, all variants, parameter classes, "
          "HKDF-PRF hashes / salts / key sizes, extreme key ids, single-key and generated multi-key deriver keysets with "
          "disabled/destroyed keys and every primary position, caller salts nil..1000 bytes) is projected (ids, status, "
          "primary, prefix type, parameters, key bytes) and judged by TLC against Derivation.tla: one ENABLED key per enabled "
          "deriver key with the same id / prefix type / primary, material = leading bytes of RFC 5869 HKDF (transcribed in "
          "TLA+ over the JDK HMAC) of (prfKey, prfSalt, info = salt) mapped by the per-type rule; equal salts give Equal "
          "keysets; changed salt / PRF key / PRF salt give different material; derived keys are used through their ordinary "
          "primitives and checked against the reference key (JDK AES-GCM / ChaCha20-Poly1305 opens Tink's ciphertext, JDK "
          "Ed25519 verifies Tink's signature under the public key of the reference seed, HMAC / AES-SIV / PRF outputs equal "
          "the reference constructions). Conformance, not a proof: keysets and salts are enumerated/generated, not all."),
    note=("Trusted: JDK providers, TLC, the TLA+ transcription of RFC 5869 (gated by RFC 5869 appendix A and Wycheproof in "
          "bin/selfspec). Streaming AEAD usability is a Tink-vs-Tink cross-check on top of the judged key bytes. Key types "
          "whose ordinary keys have no primitive (AES-192-GCM, 32/48-byte AES-SIV, ...) are derived and judged but not used."),
    technique="TLA+ derivation function over an RFC 5869 reference + TLC trace validation of recorded real-code calls, negative control",
    design_ref="DESIGN.md section 6, C17",
)
