"""C19 - No writes into caller buffers; keys, handles and primitives share no memory with callers.

(M) Ownership.tla: TLC proves NoForeignWrite / LibraryValuesStable for the library the property demands and,
    for every fault class, finds a schedule that exposes it within the plan's length (the plan is adequate);
(R) TLC writes out every mutation schedule (Plan_Ownership) per shape class of the inventory; the driver runs
    each on real Tink objects with inputs inside sentinel-filled arrays;
(T) Trace_Ownership judges the log after every step (region contents, aliasing, object values).
The inventory table (OwnershipInventory.tla) is diffed against the API extracted mechanically with go/types."""
import bisect
import concurrent.futures as cf
import json
import os

import vlib

TRACE = "Trace_Ownership"
FAULTS = {"stores_input": "LibraryValuesStable", "returns_internal": "LibraryValuesStable",
          "writes_caller_capacity": "NoForeignWrite", "writes_caller_data": "NoForeignWrite",
          "returns_input": "NoForeignWrite"}



# ------------------------------------------------------------------------------------------------ inventory
EXCLUDED = [
    ("hybrid/subtle.(ECPublicKey).ScalarBaseMult", "method promoted from the embedded crypto/elliptic.Curve of the standard library; no Tink code behind it"),
    ("hybrid/subtle.(ECPublicKey).ScalarMult", "method promoted from the embedded crypto/elliptic.Curve of the standard library; no Tink code behind it"),
    ("hybrid/subtle.KEMKey.Kem", "KEMKey values are produced only by the unexported ECIESHKDFSenderKem.encapsulate; no exported operation takes or returns one"),
    ("hybrid/subtle.KEMKey.SymmetricKey", "as KEMKey.Kem; the symmetric key reaches caller code only through EciesAEADHKDFDEMHelper.GetAEADOrDAEAD, which is in the table"),
]


def write_table(listing, path):
    """Developer action (VERIF_C19_WRITE_TABLE=1): regenerate OwnershipInventory.tla from the driver's target listing."""
    q = lambda x: '"%s"' % x
    out = ["--------------------------- MODULE OwnershipInventory ---------------------------",
           "(* The inventory of C19: every operation kind (target) the ownership check exercises,   *)",
           "(* with its shape (ci = byte slices / byte-carrying messages a constructor takes, ui/uo  *)",
           "(* = a use takes / returns, ao = the accessors return) and the public operations of      *)",
           "(* tink-go it covers.  The check extracts, with go/types, every exported function, method *)",
           "(* and struct field of a non-internal package whose type mentions []byte,                 *)",
           "(* secretdata.Bytes or a proto message carrying bytes, and requires                        *)",
           "(*      extracted  \\subseteq  Ops \\cup ExcludedOps                                         *)",
           "(* (an operation in the code but not here is a coverage hole: exit 2), that the driver's   *)",
           "(* target table equals Targets, and that every operation of Ops was executed.              *)",
           "(* Generated from `c19 -list` (VERIF_C19_WRITE_TABLE=1), reviewed and committed.           *)",
           "EXTENDS Integers, FiniteSets", "", "Targets == {"]
    rows = []
    for t in listing:
        ops = ", ".join(q(o) for o in t["ops"])
        rows.append("  [t |-> %s, ci |-> %d, ui |-> %d, uo |-> %d, ao |-> %d, cost |-> %d,\n   ops |-> {%s}]" % (
            q(t["target"]), t["shape"][0], t["shape"][1], t["shape"][2], t["shape"][3], t["cost"], ops))
    out.append(",\n".join(rows))
    out += ["}", "", "(* operations of the extracted API that are deliberately not exercised, with the reason *)", "Excluded == {"]
    out.append(",\n".join("  [op |-> %s,\n   why |-> %s]" % (q(o), q(w)) for o, w in EXCLUDED))
    out += ["}", "", "Ops == UNION {x.ops : x \\in Targets}", "ExcludedOps == {e.op : e \\in Excluded}", "",
            "(* which shape classes occur (the plan is generated for exactly these) *)",
            "Bit(n) == IF n > 0 THEN 1 ELSE 0",
            "ShapeClassesUsed == {[ci |-> Bit(x.ci), ui |-> Bit(x.ui), uo |-> Bit(x.uo), ao |-> Bit(x.ao)] : x \\in Targets}", "",
            "InventoryOK ==",
            "  /\\ \\A x \\in Targets : x.ops # {} \\/ x.ci + x.ui + x.uo + x.ao = 0",
            "  /\\ \\A x, y \\in Targets : x.t = y.t => x = y",
            "  /\\ ExcludedOps \\cap Ops = {}",
            "================================================================================", ""]
    open(path, "w").write("\n".join(out))

# ------------------------------------------------------------------------------------------------ plan
def make_plan(ctx, steps, path):
    """All maximal schedules of every shape class of the inventory, written by TLC (Plan_Ownership); the same run
    exports the inventory table of the specification.  Returns (number of schedules, targets, excluded)."""
    raw = os.path.join(ctx.scratch, "plan-raw.ndjson")
    invp = os.path.join(ctx.scratch, "inventory.json")
    r = ctx.tlc("Plan_Ownership", env=dict(VERIF_STEPS=steps, VERIF_PLAN=raw, VERIF_INVENTORY=invp), workers=1)
    if not r.ok:
        raise vlib.Infra("Plan_Ownership: %s" % (r.error or r.summary()))
    ctx.add_states(r)
    inv = json.loads(open(invp).readline())
    by = {}
    nlines = 0
    for x in open(raw):
        if x.strip():
            o = json.loads(json.loads(x))
            sh = "%d,%d,%d,%d" % (o["shape"]["ci"], o["shape"]["ui"], o["shape"]["uo"], o["shape"]["ao"])
            by.setdefault(sh, []).append(o["steps"])
            nlines += 1
    if nlines != r.distinct - len(by):
        raise vlib.Infra("Plan_Ownership: %d schedules written, %d states, %d shape classes" % (nlines, r.distinct, len(by)))
    total = 0
    key = lambda h: json.dumps(h, sort_keys=True)
    with open(path, "w") as out:
        for sh in sorted(by):
            hs = by[sh]
            pref = set()
            for h in hs:
                for i in range(1, len(h)):
                    pref.add(key(h[:i]))
            mx = [h for h in hs if key(h) not in pref]
            for h in mx:
                out.write(json.dumps(dict(shape=sh, steps=h)) + "\n")
            total += len(mx)
            ctx.stage("R:plan %s" % sh, schedules=len(hs), maximal=len(mx), max_steps=steps)
    return total, inv["targets"], inv["excluded"]


def check_inventory(ctx, drv, spec_targets, spec_excluded):
    """extracted API  within  table + exclusions;  driver targets == table.  Anything else: exit 2."""
    inv = ctx.go_build("c19inv")
    repo = os.environ.get("VERIF_REPO", vlib.REPO)
    r = ctx.run([inv, "-repo", repo])
    extracted = [x.split()[0] for x in r.stdout.splitlines() if x.strip()]
    if len(extracted) < 300:
        raise vlib.Infra("API extraction found only %d operations" % len(extracted))
    listing = [json.loads(x) for x in ctx.run([drv, "-list"]).stdout.splitlines() if x.strip()]
    if os.environ.get("VERIF_C19_WRITE_TABLE") == "1":
        write_table(listing, os.path.join(vlib.SPEC, "sys", "OwnershipInventory.tla"))
        raise vlib.Infra("OwnershipInventory.tla rewritten from the driver's listing; review the diff and run again")
    ops = set(o for t in spec_targets for o in t["ops"])
    excl = set(e["op"] for e in spec_excluded)
    holes = sorted(o for o in set(extracted) if o not in ops and o not in excl)
    if holes:
        raise vlib.Infra("coverage hole: %d operation(s) of the public API exchange byte slices but are neither in the inventory "
                         "table of OwnershipInventory.tla nor on its exclusion list: %s" % (len(holes), ", ".join(holes[:40])))
    stale = sorted(e for e in excl if e not in extracted)
    if stale:
        raise vlib.Infra("exclusion list names operations that no longer exist: %s" % stale)
    want = {t["t"]: ((t["ci"], t["ui"], t["uo"], t["ao"]), sorted(t["ops"]), t["cost"]) for t in spec_targets}
    have = {t["target"]: (tuple(t["shape"]), sorted(t["ops"]), t["cost"]) for t in listing}
    if want != have:
        diff = sorted(set(want) ^ set(have)) or sorted(k for k in want if want[k] != have[k])
        raise vlib.Infra("the driver's targets differ from the inventory table of the specification (e.g. %s); "
                         "bring OwnershipInventory.tla up to date (VERIF_C19_WRITE_TABLE=1)" % diff[:8])
    ctx.stage("inventory", extracted_operations=len(extracted), covered=len(set(extracted) & ops), excluded=len(excl),
              targets=len(listing), operations_in_table=len(ops))
    ctx.log("inventory: %d operations extracted from the code, %d in the table, %d excluded, %d targets"
            % (len(extracted), len(set(extracted) & ops), len(excl), len(listing)))
    return listing, ops


SHARD_EVENTS = 12000


def validate_part(ctx, trace, pool):
    """Trace validation of one driver output that lists ALL mismatches in one pass (Trace_Ownership_collect.cfg: the
    spec skips to the next reset after a mismatch and writes each one out) - the unchanged tree may carry several
    known defects, each hit by hundreds of scenarios; one TLC restart per mismatch would take minutes.
    The file is cut at reset events into pieces of <= SHARD_EVENTS events, validated concurrently on `pool`.
    Returns (verdicts, n_events, n_scenarios): verdicts = [(signature, what, replay_obj)]."""
    lines = [x for x in open(trace).read().splitlines() if x.strip()]
    n = len(lines)
    resets = [i for i, x in enumerate(lines) if x.startswith('{"ev":"reset"')]
    if not resets or resets[0] != 0:
        raise vlib.Infra("trace must start with a reset event")
    shards = max(1, (n + SHARD_EVENTS - 1) // SHARD_EVENTS)
    cuts = sorted(set([0] + [resets[min(len(resets) - 1, bisect.bisect_left(resets, i * n // shards))] for i in range(1, shards)]))
    bounds = [(a, b) for a, b in zip(cuts, cuts[1:] + [n]) if a < b]

    def work(k):
        a, b = bounds[k]
        part = "%s.shard%d" % (trace, k)
        found = part + ".found"
        open(part, "w").write("\n".join(lines[a:b]) + "\n")
        r = ctx.tlc(TRACE, "Trace_Ownership_collect", env=dict(VERIF_TRACE=part, VERIF_FOUND=found, VERIF_START=1), workers=1,
                    timeout=3000, heap="3g")
        if not r.ok:
            raise vlib.Infra("trace spec %s on %s: %s" % (TRACE, os.path.basename(part), r.error or r.summary()))
        out = []
        if os.path.exists(found):
            for x in open(found):
                if x.strip():
                    o = json.loads(json.loads(x))
                    out.append((a + o["l"] - 1, o["bad"]))
            os.remove(found)
        os.remove(part)
        return out

    verdicts, badscen = [], set()
    for out in pool.map(work, range(len(bounds))):
        for idx, bad in out:
            a, evs = scenario_of(lines, idx)
            sig, what = classify(evs, bad)
            if sig is None:
                raise vlib.Infra("trace/model mismatch that is not a verdict about the code: %s at event %d of %s: %s"
                                 % (what, idx, os.path.basename(trace), lines[idx][:600]))
            badscen.add(a)
            verdicts.append((sig, what, dict(scenario=evs[0]["scenario"], event=evs[-1], spec_says=bad)))
    # a failed call outside a violating scenario is a coverage problem of the driver, not a verdict
    cur = 0
    for i, x in enumerate(lines):
        if x.startswith('{"ev":"reset"'):
            cur = i
        elif ('"err":true' in x or '"panic":true' in x) and cur not in badscen:
            raise vlib.Infra("a call failed in a scenario without violation: %s" % x[:800])
    # scenarios without mismatch (the negative control needs a trace the specification accepts)
    clean = [lines[a:b] for a, b in zip(resets, resets[1:] + [n]) if a not in badscen]
    return verdicts, n, len(resets), clean


# ------------------------------------------------------------------------------------------------ verdicts
def scenario_of(lines, idx):
    """Events of the scenario that contains line idx (reset .. idx)."""
    a = idx
    while a > 0 and '"ev":"reset"' not in lines[a]:
        a -= 1
    return a, [json.loads(x) for x in lines[a:idx + 1]]


def classify(evs, bad):
    """(signature, description) of a mismatch: one signature per call site and kind."""
    e = evs[-1]
    regs = []      # region index (1-based) -> (site, role, arg)
    for x in evs[1:]:
        if x["ev"] == "call":
            for n in x["new"]:
                regs.append((x["site"], n["role"], n["arg"]))
    why = bad[0]

    def reg(i):
        s, role, arg = regs[int(i) - 1]
        return s, role, arg

    if why == "panic":
        return "%s/panic" % e["site"], "panic: %s" % e.get("msg")
    if why.startswith("writes-caller-"):
        s, role, arg = reg(bad[1])
        return "%s/%s" % (e["site"], why), "%s changed the caller's %s (%s of region %s '%s' created by %s; the caller had left %s)" % (
            e["site"], why.split("-")[-1], role, bad[1], arg, s, bad[2])
    if why == "returns-aliased":
        s, role, arg = reg(bad[2])
        same_call = int(bad[2]) > len(regs) - len(e["new"])
        kind = "returns-input" if (role == "in" and same_call) else "returns-internal"
        return "%s/%s" % (e["site"], kind), "slice returned by %s overlaps region %s (%s '%s' of %s)" % (e["site"], bad[2], role, arg, s)
    if why == "scribble-changes-library-value":
        kind = "stores-input" if e["role"] == "in" else "returns-internal"
        return "%s/%s" % (e["site"], kind), ("after the caller overwrote the %s '%s' of %s the object's value component '%s' changed (was %s)"
                                             % ("input" if e["role"] == "in" else "returned slice", e["arg"], e["site"], bad[1], bad[2]))
    if why == "shares-memory":
        s, role, arg = reg(bad[1])
        # the scribbled region is e's; the one that moved is region bad[1]
        if e["role"] == "out":
            return "%s/returns-internal" % e["site"], "overwriting the slice returned by %s changed region %s (%s '%s' of %s)" % (
                e["site"], bad[1], role, arg, s)
        return "%s/returns-input" % s, "overwriting the input '%s' of %s changed region %s (%s '%s' of %s)" % (
            e["arg"], e["site"], bad[1], role, arg, s)
    if why == "call-changes-library-value":
        return "%s/call-changes-object" % e["site"], "the call changed the object's value component '%s' (was %s)" % (bad[1], bad[2])
    return None, "%s %s" % (why, bad[1:])


def judge(ctx, traces, stage):
    """Validate the driver outputs; every mismatch becomes a violation with a per-site signature."""
    total = nsc = nm = 0
    accepted = []
    with cf.ThreadPoolExecutor(max_workers=16) as pool:
        for tr in traces:
            verdicts, n, k, clean = validate_part(ctx, tr, pool)
            if len(accepted) < 400:
                accepted += clean[:400]
            total += n
            nsc += k
            nm += len(verdicts)
            for sig, what, obj in verdicts:
                ctx.violation(sig, what, obj)
    ctx.cov["states"] += total
    ctx.cov["transitions"] += total
    ctx.cov["traces_validated_against_impl"] += nsc
    ctx.stage(stage, events=total, scenarios=nsc, mismatches=nm)
    return nm, total, nsc, accepted


def corrupt(ev, rng):
    if ev["ev"] == "reset" or not ev["regs"]:
        return None
    ev = json.loads(json.dumps(ev))
    choice = rng.randrange(3)
    if choice == 0:
        cand = [i for i in range(len(ev["regs"])) if not (ev["ev"] == "scr" and i + 1 in ev["R"])]   # what the caller wrote itself is its to change
        if not cand:
            return None
        r = ev["regs"][rng.choice(cand)]
        part = rng.choice(["d", "s", "g"])
        r[part] = r[part] + "00"
        ev["_corrupted"] = "regs.%s" % part
        return ev
    if choice == 1 and len(ev["obs"]) > 1 and not (ev["ev"] == "call" and ev["k"] == "new"):
        k = rng.choice(sorted(k for k in ev["obs"] if k != "none"))
        ev["obs"][k] = ev["obs"][k] + "x"
        ev["_corrupted"] = "obs.%s" % k
        return ev
    if choice == 2 and ev["ev"] == "call" and len(ev["regs"]) >= 2 and any(n["role"] == "out" for n in ev["new"]):
        ev["alias"] = [[len(ev["regs"]), 1]]
        ev["_corrupted"] = "alias"
        return ev
    return None


# ------------------------------------------------------------------------------------------------ run
def run(ctx):
    ctx.cov["rule"] = ("inventory: every exported func/method/field of a non-internal package whose type mentions []byte, "
                       "secretdata.Bytes or a proto message carrying bytes (go/types extraction, diffed against the table of "
                       "OwnershipInventory.tla); per operation kind (target) every maximal interleaving of {construct, use, read accessors, overwrite any group of "
                       "former inputs / returned slices} up to N steps (N = 4 quick, 6 thorough), enumerated by TLC from "
                       "Ownership.tla, each run in one of five rotating buffer layouts (cap = len+8; small un-capped; 8 KiB of un-capped "
                       "sentinel room so that an append of any size lands in caller memory; all inputs of a call adjacent in one frame, "
                       "in call order and in reverse order); every region's data, spare capacity and guard zones plus the object's observable value "
                       "are logged after every step and judged by TLC")
    ctx.assumptions += [
        "an object's observable value is what the driver can see through the public API: Equal against a pristine deep copy, "
        "accessor bytes / serialized key data, behaviour of primitives built from it before and after (randomized primitives "
        "through a counterpart made from pristine material); the oracle is only that it does not change",
        "one object per scenario; schedules bounded to 4 (quick) / 6 (thorough) steps; five buffer layouts rotating over the "
        "schedules of a target (tight, small open, 8 KiB open, adjacent frame forward / reverse); inputs of 0..5000 bytes",
        "stateful objects (noncebased.Writer/Reader, Polyval) are compared with a twin fed with exact-size copies in lock-step",
        "result/input aliasing is read from slice addresses (unsafe.SliceData); Go's collector does not move heap objects",
        "values of type *big.Int and buffers the library hands to caller-implemented io.Reader / io.Writer are outside the check",
    ]
    # ---------------- (M) the model: properties hold for the demanded library; every fault class is exposed
    def fault(item):
        f, inv = item
        r = ctx.tlc("MC_Ownership", "MC_Ownership_fault_" + f, workers=1)
        if r.invariant not in inv:
            raise vlib.Infra("fault class %s is NOT exposed by any schedule of 4 steps (TLC: %s) - the plan would be blind to it"
                             % (f, r.summary()))
        ctx.stage("M:fault " + f, exposed_by=r.invariant, schedule_length=r.trace_len - 1)

    if not ctx.replay:
        jobs = [(ctx.model_check, ("MC_Ownership", "MC_Ownership"),
                 dict(workers=2, heap="3g", stage="M:Ownership, correct library, 1 region per role, 6 steps"))]
        if ctx.thorough:   # the model does not depend on the code: the per-class adequacy runs belong to the thorough tier
            jobs.append((ctx.model_check, ("MC_Ownership", "MC_Ownership_wide"),
                         dict(workers=2, heap="3g", stage="M:Ownership, correct library, 2 regions per role, 5 steps")))
            jobs += [(fault, ((f, (inv,)),), {}) for f, inv in FAULTS.items()]
        else:
            jobs.append((fault, (("all", ("NoForeignWrite", "LibraryValuesStable")),), {}))
        with cf.ThreadPoolExecutor(max_workers=4) as ex:
            for j in [ex.submit(fn, *a, **kw) for fn, a, kw in jobs]:
                j.result()
    drv = ctx.go_build("c19")
    for f in os.listdir(os.path.join(vlib.VERIF, "evidence", "replays")):      # stale replay files of earlier runs of this check
        if f.startswith("C19-%d-" % ctx.seed) and not ctx.replay:
            os.remove(os.path.join(vlib.VERIF, "evidence", "replays", f))
    if ctx.replay:
        trace = os.path.join(ctx.scratch, "replay.ndjson")
        ctx.run([drv, "-out", trace, "-replay", ctx.replay])
        judge(ctx, [trace], "T:replay")
        return
    # ---------------- (R) plan + inventory
    steps = 6 if ctx.thorough else 4
    plan = os.path.join(ctx.scratch, "plan.ndjson")
    nplan, spec_targets, spec_excluded = make_plan(ctx, steps, plan)
    listing, table_ops = check_inventory(ctx, drv, spec_targets, spec_excluded)
    ctx.log("plan: %d maximal schedules (<= %d steps)" % (nplan, steps))
    trace = os.path.join(ctx.scratch, "c19.ndjson")
    # per target: all schedules for cheap targets (thorough: a seeded sample of 160 of the up to 383), fewer for
    # targets whose steps cost milliseconds (RSA, ML-DSA, streaming) or tens of milliseconds (SLH-DSA)
    limits = ["-max0", "80", "-max1", "40", "-max2", "8"] if ctx.thorough else ["-max1", "20", "-max2", "3"]
    nproc = 12

    def drive(i):
        out = "%s.%d" % (trace, i)
        ctx.run([drv, "-plan", plan, "-out", out, "-cover", out + ".cover", "-part", str(i), "-of", str(nproc)] + limits, timeout=3000)
        return out

    with cf.ThreadPoolExecutor(max_workers=nproc) as ex:
        parts = list(ex.map(drive, range(nproc)))
    executed = set()
    for out in parts:
        executed |= set(x.strip() for x in open(out + ".cover") if x.strip())
    ctx.log("driver: %d operations of the inventory executed" % len(executed))
    never = sorted(table_ops - executed)
    if never:
        raise vlib.Infra("operations of the inventory table that no scenario executed: %s" % never[:20])
    nm, n, nsc, accepted = judge(ctx, parts, "T:schedules on real objects")
    ctx.stage("R:execution", targets=len(listing), scenarios=nsc, events=n)
    ctx.log("validated %d events of %d scenarios (%d targets); %d mismatches" % (n, nsc, len(listing), nm))
    if not accepted:
        raise vlib.Infra("no scenario was accepted by the specification: nothing to run the negative control on")
    for sc in (accepted[0], accepted[len(accepted) // 2]):
        ctx.sample(json.loads(sc[0])["scenario"])
        ctx.sample(json.loads(sc[min(2, len(sc) - 1)]))
    nc = os.path.join(ctx.scratch, "accepted.ndjson")
    open(nc, "w").write("\n".join(x for sc in accepted for x in sc) + "\n")
    ctx.negative_control(TRACE, nc, corrupt, reset="reset")


MANIFEST = dict(
    category="model_checking",
    text=("Ownership.tla models memory as cells, byte slices as regions (bytes inside len, spare capacity, guard zones), the "
          "library object as the cells it references, and the actions New / Use / Acc / Scribble; a Faults constant names the "
          "ways a library can deviate (stores-input, returns-internal, writes-caller-capacity, writes-caller-data, returns-input). "
          "TLC proves NoForeignWrite, LibraryValuesStable and NoSharing for the library the property demands over every "
          "schedule of <= 6 steps, and shows that each fault class is exposed by a schedule of <= 4 steps. Plan_Ownership writes "
          "out every maximal schedule per shape class of the inventory table (OwnershipInventory.tla: 771 operation kinds "
          "covering 394 of the 398 public operations that exchange []byte / secretdata.Bytes / byte-carrying protos, which a "
          "go/types extractor lists from the current tree; 4 are excluded with reasons; a new operation missing from the "
          "table is exit 2). The driver executes every schedule on real objects in five rotating buffer layouts; TLC (Trace_Ownership, "
          "stepping Ownership with Faults = {}) judges every region's data / spare capacity / guards, result aliasing (address "
          "ranges) and the object's observable value (Equal vs pristine copy, accessors, primitives built before and after) "
          "after every step; deterministic calls are also re-submitted with the SAME caller buffers and compared with a pristine "
          "counterpart (stale caches keyed by a caller slice). quick: ~10.8k scenarios / ~95k events; thorough: ~81k / ~1.18M."),
    note=("Bounded: one object per scenario, schedules of <= 4 (quick) / <= 6 (thorough) steps; thorough samples 160 of the up "
          "to 383 six-step schedules per target by seed. Factory targets cover every primitive kind, every prefix type "
          "incl. LEGACY and the legacy adapters (custom key managers) with one or two parameter sets per key type; the key "
          "classes' constructors and accessors are run for EVERY member of every family (all HPKE KEM ids, ECIES curves x point "
          "formats, ECDSA curves/hashes/encodings, ML-DSA instances, SLH-DSA sets, RSA/JWT algorithms, hashes, key sizes, "
          "variants, KID strategies) in every run, observing the key object without building primitives. Stateful "
          "objects (noncebased Writer/Reader, Polyval) are observed against a lock-step twin fed with copies. Not covered: "
          "*big.Int values, buffers the library passes to caller-implemented io.Reader/io.Writer, JWT primitives (their key "
          "classes and byte-exchanging helpers are covered). Verdict kinds: stores-input, returns-internal, "
          "writes-caller-capacity, writes-caller-data/guard, returns-input; one signature per call site."),
    technique=("TLA+ ownership model + TLC exhaustive model checking (incl. fault-class adequacy) + TLC-enumerated mutation "
               "schedules replayed into real code + TLC trace validation; inventory extracted with go/types and diffed against the spec table"),
    design_ref="DESIGN.md section 6, C19",
)
