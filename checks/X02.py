"""X02 (growth) - usage monitoring and key-export logging as a state machine.

Monitoring.tla states the documented contract of tink-go's monitoring: a keyset handle carries annotations or not
(keyset.WithAnnotations / Manager.SetAnnotations); only annotated handles reach the registered monitoring.Client; a
primitive of an annotated handle obtains one Logger per API function (NewLogger(Context{Primitive, APIFunction,
KeysetInfo})); every successful call is logged exactly once (Log(keyID of the key that did the work, size of the
input)), every failed call exactly once (LogFailure()), never both; Entry.Key() / KeysetMaterial of an annotated handle
log key exports (LogKeyExport), internal accesses, Public() and Write* do not.

(M) TLC: the mechanism written like the code (handles, managers, factories, the client shaped like
    testing/fakemonitoring) satisfies the contract invariants on every interleaving within small bounds (2 keys,
    2 primitives, success/failure, accessors, annotation flows through Read options / managers / Public); five fault
    classes (failure logs both, forgotten LogFailure, decrypt logs the plaintext size, export not logged, loggers
    without annotations) must each break the invariant that states the clause.
(R) cases written by TLC (spec/plan/Plan_Monitoring): every bounded path by which handles come to carry annotations,
    and every well-formed keyset of <= 2 (quick) / 3 (thorough) keys; harness/cmd/x02 runs them with real keys for
    every primitive class (AEAD, DAEAD, MAC, signature, hybrid, PRF, JWT MAC, JWT signature, streaming AEAD, ML-DSA
    pre-hash, keyset derivation) with a recording monitoring client: every operation in every outcome, every accessor.
(T) seeded random histories with real keyset.Manager rotation.  TLC (spec/trace/Trace_Monitoring) replays every recorded
    step through Monitoring.tla and demands that the client calls recorded during the step EQUAL the model's."""
import concurrent.futures as cf
import json
import os

import vlib

TRACE = "Trace_Monitoring"
FAMILIES = ["AEAD", "DAEAD", "MAC", "SIG", "HYBRID", "PRF", "JWTMAC", "JWTSIG", "STREAM", "PREHASH", "KEYDERIV"]
ASYM = {"SIG", "HYBRID", "JWTSIG", "PREHASH"}
NO_FAULTY = {"JWTMAC", "JWTSIG", "STREAM", "PREHASH", "KEYDERIV"}
MONITORED = ["AEAD", "DAEAD", "MAC", "SIGN", "VERIFY", "HENC", "HDEC", "PRF", "JWTMAC", "JWTSIGN", "JWTVERIFY", "PREHASH", "PREHASHSIGN"]
UNMONITORED = ["STREAM", "KEYDERIV"]
CLASS_OPS = dict(AEAD=["encrypt", "decrypt"], DAEAD=["encrypt", "decrypt"], MAC=["compute", "verify"], SIGN=["sign"], VERIFY=["verify"],
                 HENC=["encrypt"], HDEC=["decrypt"], PRF=["compute"], JWTMAC=["compute", "verify"], JWTSIGN=["sign"], JWTVERIFY=["verify"],
                 PREHASH=["compute"], PREHASHSIGN=["sign"])
CANNOT_FAIL = {("PREHASH", "compute")}       # ML-DSA ComputePrehash has no error path
EXPORTING = ["entryKey", "primaryKey", "material", "testMaterial", "cleartextWrite", "testWrite"]
SILENT = ["entryMeta", "keysetInfo", "string", "len", "write", "writeAD", "writeCtx", "writeNoSecrets"]
FAULTS = {   # fault class of Monitoring.tla -> the contract invariant that must expose it
    "failure-logs-both": "EveryCallAccountedOnce",
    "forgets-failure": "EveryCallAccountedOnce",
    "decrypt-logs-plaintext-size": "EveryCallAccountedOnce",
    "export-not-logged": "KeyExportsAccounted",
    "logs-without-annotations": "NoAnnotationsNoMonitoring",
}
A = {"nil": False, "pairs": [["team", "a"]]}

# what the code does today but no godoc comment states (Monitoring.tla marks each as OBSERVATION); kept as coverage
# expectations: a deviation is "model out of date" (exit 2), never a violation
OBSERVATIONS = [
    "Context names: aead/{encrypt,decrypt}, daead/{encrypt,decrypt}, mac/{compute,verify}, public_key_sign/sign, public_key_verify/verify, "
    "hybrid_encrypt/encrypt, hybrid_decrypt/decrypt, prf/compute, jwtmac/{compute,verify}, jwtsign/sign, jwtverify/verify, prehash/compute, "
    "prehash_signer/sign, keyset_handle/get_key; loggers are created at construction, in that order, one per API function (PRF: one for the whole set)",
    "streamingaead.New and keyderivation.New create no logger: streaming AEAD and keyset derivation are not monitored at all, annotations or not",
    "numBytes: plaintext size for encrypt, data size for compute/sign/prehash, PRF input size, the whole ciphertext (prefix included) for decrypt "
    "[all: 'an input of numBytes']; UNDOCUMENTED: verify logs len(data) (tag/signature not counted), every JWT operation logs numBytes = 1",
    "a factory's KeysetInfo lists only the ENABLED entries (internal/factoryutil), the handle's own keyset_handle/get_key context lists every entry "
    "incl. DISABLED/DESTROYED (monitoringutil.MonitoringKeysetInfoFromKeysetInfo): the two contexts of one handle differ",
    "a handle with annotations calls NewLogger once PER ENTRY (keyset_handle/get_key) when it is created, before any key is exported",
    "Handle.Public() drops the annotations (newFromEntries without options): verifiers / hybrid encrypters built from handle.Public() are never "
    "monitored; an annotated public keyset needs insecurecleartextkeyset.Read(..., WithAnnotations) or NewManagerFromHandle(pub)+SetAnnotations+Handle",
    "keyset.NewManagerFromHandle does not inherit the handle's annotations (Manager.Handle() then yields an unannotated handle)",
    "WithAnnotations given twice fails only if the earlier value was a non-nil map (nil, then a map: accepted); an empty non-nil map counts as "
    "'already contains annotations' for a later option but as 'no annotations' for monitoring (len == 0)",
    "Entry.Key() logs an export for DISABLED and DESTROYED entries too; Handle.Primary().Key() logs like Entry(i).Key() (same *Entry)",
    "insecurecleartextkeyset.KeysetMaterial / Write and testkeyset.KeysetMaterial / Write log one export per entry in keyset order; "
    "Handle.Write / WriteWithAssociatedData / WriteWithContext / WriteWithNoSecrets, KeysetInfo, String, Len log nothing",
    "keyset.Validate refuses OutputPrefixType WITH_ID_REQUIREMENT, so a keyset holding an ML-DSA key of variant NoPrefixWithPrehashID cannot be "
    "read back from a proto keyset (insecurecleartextkeyset.Read: 'key N has unknown prefix'); such handles exist only via keyset.Manager",
]


# ------------------------------------------------------------------ plan
def load_flows(path):
    flows = set()
    for line in open(path):
        line = line.strip()
        if line:
            flows.add(json.dumps(json.loads(json.loads(line)), sort_keys=True))
    flows = sorted(flows)
    # a path that is a proper prefix of another adds nothing: the schedule runs on every handle alive at the end
    parsed = [json.loads(f) for f in flows]
    keys = {json.dumps(p, sort_keys=True) for p in parsed}
    prefixes = {json.dumps(p[:k], sort_keys=True) for p in parsed for k in range(1, len(p))}
    maximal = [p for p in parsed if json.dumps(p, sort_keys=True) not in prefixes]
    return parsed, maximal, len(keys)


def creates_handle(flow):
    """does the path create at least one handle (model's rule: an option after a non-nil one is refused)"""
    for st in flow:
        if st["do"] == "read":
            o = st["opts"]
            if not any(not o[i]["nil"] for i in range(len(o) - 1)):
                return True
        if st["do"] in ("mgrHandle", "public"):
            return True
    return False


def with_faulty(rng, fam, ks):
    ks = json.loads(json.dumps(ks))
    if fam in NO_FAULTY:
        return ks
    x = rng.randrange(6)
    for i, k in enumerate(ks):
        if (x < 2 and k["primary"]) or (x == 2 and not k["primary"]):
            k["mat"] = "F%d" % (i + 1)
    return ks


FLOW_KS = [dict(status="ENABLED", primary=True, pt="TINK", mat="m1"), dict(status="ENABLED", primary=False, pt="RAW", mat="m2")]


def basic_flows(fam):
    out = [([dict(do="read", opts=[])], False),
           ([dict(do="read", opts=[A])], False),
           ([dict(do="read", opts=[]), dict(do="mgrFrom", h=1), dict(do="mgrAnn", m=1, ann=A), dict(do="mgrHandle", m=1)], False)]
    if fam in ASYM:
        out.append(([dict(do="read", opts=[A])], True))
    return out


def build_cases(ctx, flows, keysets):
    rng = ctx.rng
    cases = []
    per_fam_flows = 350 if ctx.thorough else 10
    per_fam_sets = 350 if ctx.thorough else 10
    useful = [f for f in flows if creates_handle(f)]
    for fam in FAMILIES:
        # fixed cases, so that every class meets success and failure on monitored and unmonitored primitives in every run
        for j, (fl, pub) in enumerate(basic_flows(fam)):
            for v in (0, 1):
                ks = [dict(x) for x in FLOW_KS] + [dict(status="DISABLED", primary=False, pt="TINK", mat="m3")]
                if v and fam not in NO_FAULTY:
                    ks[0]["mat"] = "F1"
                cases.append(dict(name="fixed-%s-%d-%d" % (fam, j, v), fam=fam, rot=(j + v) % 8, ks=ks, flow=fl, pub=pub))
        pick = useful if len(useful) <= per_fam_flows else rng.sample(useful, per_fam_flows)
        for k, fl in enumerate(pick):
            ks = [dict(x) for x in FLOW_KS]
            if rng.randrange(3) == 0:
                ks[1]["mat"] = "m%d" % rng.randrange(2, 7)
            has_public = any(st["do"] == "public" for st in fl)
            if has_public and fam not in ASYM:
                continue            # Handle.Public() exists for private keysets only
            pub = fam in ASYM and not has_public and rng.randrange(3) == 0
            cases.append(dict(name="flow-%s-%d" % (fam, k), fam=fam, rot=rng.randrange(8), ks=ks if has_public else with_faulty(rng, fam, ks),
                              flow=fl, pub=pub))
        sets = keysets if len(keysets) <= per_fam_sets // 3 else rng.sample(keysets, per_fam_sets // 3)
        for k, ks in enumerate(sets):
            mats = rng.sample(range(1, 7), len(ks))     # distinct key material within a keyset (see assumptions)
            ks = [dict(e, mat="m%d" % mats[i]) for i, e in enumerate(ks)]
            for j, (fl, pub) in enumerate(basic_flows(fam)):
                cases.append(dict(name="set-%s-%d-%d" % (fam, k, j), fam=fam, rot=rng.randrange(8), ks=with_faulty(rng, fam, ks), flow=fl, pub=pub))
    return cases


# ------------------------------------------------------------------ driver / validation
def run_driver(ctx, drv, jobs, tag):
    def work(i):
        out = os.path.join(ctx.scratch, "%s.%d.ndjson" % (tag, i))
        r = ctx.run([drv, "-out", out] + jobs[i], timeout=7200)
        return out, r.stdout.strip()

    with cf.ThreadPoolExecutor(max_workers=min(10, len(jobs))) as ex:
        outs = list(ex.map(work, range(len(jobs))))
    tot = {}
    for _, s in outs:
        for kv in s.split():
            k, v = kv.split("=")
            tot[k] = tot.get(k, 0) + int(v)
    return [o for o, _ in outs], tot


def merge(ctx, files, name):
    merged = os.path.join(ctx.scratch, name + "-all.ndjson")
    lines = []
    for f in files:
        lines += [x for x in open(f).read().splitlines() if x.strip()]
    if not lines:
        raise vlib.Infra("%s: the driver recorded nothing" % name)
    open(merged, "w").write("".join(x + "\n" for x in lines))
    return merged, lines


def scenario_of(lines, index):
    """the concrete scenario (replayable by harness/cmd/x02 -scenarios) that contains event `index`, cut behind it"""
    a = index
    while a > 0 and json.loads(lines[a])["ev"] != "reset":
        a -= 1
    head = json.loads(lines[a])
    steps = []
    for x in lines[a + 1:index + 1]:
        e = json.loads(x)
        if "step" in e:
            steps.append(e["step"])
    return dict(name=head.get("name", "replay"), fam=head.get("fam"), rot=head.get("rot", 0), steps=steps)


def signature(e, bad):
    what = bad[0]
    if e["ev"] == "call":
        return "%s.%s (%s): %s" % (e.get("cls"), e["op"], e.get("how"), what)
    if e["ev"] == "access":
        return "Handle accessor %s: %s" % (e["acc"], what)
    if e["ev"] == "prim":
        return "%s factory: %s" % (e.get("cls"), what)
    return "%s: %s" % (e["ev"], what)


def report(ctx, mism, lines, stage):
    infra = []
    for m in mism:
        e, bad = m["event"], m["bad"]
        if bad[0].startswith("DOC:"):
            ctx.violation(signature(e, bad), "Monitoring.tla expects the client calls %s; recorded: %s" % (bad[1:], json.dumps(e.get("calls"))[:600]),
                          dict(stage=stage, scenario=scenario_of(lines, m["index"]), event=e, spec_says=bad))
        else:
            infra.append(m)
    if infra and not ctx.violations:
        m = infra[0]
        raise vlib.Infra("%s: %s (event %d: %s) -- an OBSERVATION of Monitoring.tla no longer matches the code (model out of date) or the "
                         "driver is wrong; not a documented-contract violation" % (stage, m["bad"], m["index"], json.dumps(m["event"])[:900]))


def validate(ctx, merged, lines, stage):
    n = len(lines)
    mism, _ = ctx.validate_events(TRACE, merged, shards=max(2, min(12, n // 1500)), timeout=3600, heap="3g", stage=stage, reset="reset")
    return mism


def coverage(ctx, lines):
    """every class / operation / outcome / accessor / way of getting a handle must really have been exercised on
    annotated AND unannotated handles; a hole is a broken check (exit 2), not a success"""
    calls, prims, acc, hand = {}, {}, {}, {}
    n_client = 0
    for x in lines:
        e = json.loads(x)
        mon = len(e.get("calls", [])) > 0
        n_client += len(e.get("calls", []))
        if e["ev"] == "call":
            k = (e["cls"], e["op"], e["ok"], mon)
            calls[k] = calls.get(k, 0) + 1
        elif e["ev"] == "prim":
            prims[(e["cls"], mon)] = prims.get((e["cls"], mon), 0) + 1
        elif e["ev"] == "access":
            acc[(e["acc"], mon)] = acc.get((e["acc"], mon), 0) + 1
        elif e["ev"] in ("read", "mgrHandle", "public") and not e["err"]:
            hand[(e["ev"], mon)] = hand.get((e["ev"], mon), 0) + 1
    holes = []
    for c in MONITORED:
        for mon in (True, False):
            if not prims.get((c, mon)):
                holes.append("no %s primitive from a handle %s annotations" % (c, "with" if mon else "without"))
        for op in CLASS_OPS[c]:
            for ok in (True, False):
                if not ok and (c, op) in CANNOT_FAIL:
                    continue
                if not calls.get((c, op, ok, True)):
                    holes.append("no %s %s.%s call on a monitored primitive" % ("successful" if ok else "failing", c, op))
            if not calls.get((c, op, True, False)):
                holes.append("no %s.%s call on an unmonitored primitive" % (c, op))
    for c in UNMONITORED:
        if not prims.get((c, False)):
            holes.append("no %s primitive" % c)
        if prims.get((c, True)):
            holes.append("%s primitive reported as monitored by the coverage counter" % c)
    for a in EXPORTING:
        if not acc.get((a, True)) or not acc.get((a, False)):
            holes.append("accessor %s not used on handles with and without annotations" % a)
    for a in SILENT:
        if not acc.get((a, False)):
            holes.append("accessor %s not used" % a)
    for k in [("read", True), ("read", False), ("mgrHandle", True), ("mgrHandle", False), ("public", False)]:
        if not hand.get(k):
            holes.append("no handle via %s %s client calls" % k)
    if holes:
        raise vlib.Infra("coverage holes: " + "; ".join(holes[:12]))
    ctx.stage("coverage", client_calls_recorded=n_client, calls_by_class={"%s.%s %s %s" % (k[0], k[1], "ok" if k[2] else "fail", "mon" if k[3] else "unmon"): v for k, v in sorted(calls.items())},
              handles={"%s %s" % (k[0], "annotated" if k[1] else "plain"): v for k, v in sorted(hand.items())})
    return n_client


def corrupt(ev, rng):
    """negative control: tamper with the recorded client calls of one event"""
    calls = ev.get("calls") or []
    if ev["ev"] not in ("call", "access", "prim", "read", "mgrHandle") or not calls:
        return None
    ev = json.loads(json.dumps(ev))
    calls = ev["calls"]
    k = rng.randrange(len(calls))
    c = calls[k]
    choice = rng.randrange(4)
    if c["k"] == "Log":
        if choice == 0:
            c["id"] = "0badc0de"
            ev["_corrupted"] = "Log.id"
        elif choice == 1:
            c["n"] += 1
            ev["_corrupted"] = "Log.n"
        elif choice == 2:
            calls.append({"k": "Fail", "lg": c["lg"]})
            ev["_corrupted"] = "Log followed by LogFailure"
        else:
            del calls[k]
            ev["_corrupted"] = "Log dropped"
    elif c["k"] == "Fail":
        if choice < 2:
            del calls[k]
            ev["_corrupted"] = "LogFailure dropped"
        else:
            calls.append({"k": "Fail", "lg": c["lg"]})
            ev["_corrupted"] = "LogFailure twice"
    elif c["k"] == "Export":
        if choice < 2:
            del calls[k]
            ev["_corrupted"] = "LogKeyExport dropped"
        else:
            c["id"] = "0badc0de"
            ev["_corrupted"] = "LogKeyExport.id"
    else:   # NewLogger
        if choice == 0:
            c["api"] = c["api"] + "x"
            ev["_corrupted"] = "NewLogger.api"
        elif choice == 1:
            c["info"]["primary"] = "0badc0de"
            ev["_corrupted"] = "NewLogger.info.primary"
        elif choice == 2 and c["info"]["entries"]:
            c["info"]["entries"][0]["status"] = "DISABLED" if c["info"]["entries"][0]["status"] == "ENABLED" else "ENABLED"
            ev["_corrupted"] = "NewLogger.info.entries.status"
        else:
            c["info"]["ann"] = c["info"]["ann"] + [["zz", "zz"]]
            ev["_corrupted"] = "NewLogger.info.ann"
    return ev


# ------------------------------------------------------------------ the check
def model_stage(ctx):
    def reach():
        r = ctx.tlc("MC_Monitoring", "MC_Monitoring_reach", workers=1)
        if r.invariant != "ReachLogAndFailure":
            raise vlib.Infra("MC_Monitoring: no state with a logged success, a logged failure and a logged export is reached (vacuous): %s" % r.summary())

    def fault(f, inv):
        r = ctx.tlc("MC_Monitoring", "MC_Monitoring_fault_" + f.replace("-", "_"), workers=1)
        if r.invariant != inv:
            raise vlib.Infra("fault class %s is NOT exposed by the contract invariant %s (TLC: %s) - the contract would be blind to it" % (f, inv, r.summary()))
        ctx.stage("M:fault " + f, exposed_by=r.invariant, behaviour_length=r.trace_len)

    def mc(cfg, stage):
        ctx.model_check("MC_Monitoring", cfg, stage=stage, timeout=5400, workers=4 if ctx.thorough else 2, must_cover=False)

    jobs = [(reach, ())] + [(fault, (f, inv)) for f, inv in FAULTS.items()]
    if ctx.thorough:
        jobs += [(mc, ("MC_Monitoring_ops", "M:1 handle (every keyset of <=2 keys, 3 statuses) x 2 primitives of 5 classes x 3 calls/accesses")),
                 (mc, ("MC_Monitoring_flow", "M:annotation flows: <=3 handles, 2 managers, Read options (<=2), Public, 1 primitive, 1 call/access"))]
    else:
        jobs += [(mc, ("MC_Monitoring_ops_quick", "M:1 handle (every keyset of <=2 keys) x 2 primitives of 5 classes x 2 calls/accesses")),
                 (mc, ("MC_Monitoring_flow_quick", "M:annotation flows: <=2 handles, 2 managers, Read options (<=2), Public, 1 primitive, 1 call/access"))]
    with cf.ThreadPoolExecutor(max_workers=4) as ex:
        for f in [ex.submit(fn, *a) for fn, a in jobs]:
            f.result()


def run(ctx):
    ctx.cov["rule"] = (
        "(M) Monitoring.tla, every interleaving within: one handle over every well-formed keyset of <= 2 keys x {nil, empty, non-empty} annotations, "
        "two primitives out of {AEAD, VERIFY, PRF, JWTMAC, STREAM}, up to 2 (quick) / 3 (thorough) calls (success by any key that may have worked, "
        "failure) and accessors; and the annotation flows (Read with <= 2 WithAnnotations options, NewManager, NewManagerFromHandle, SetAnnotations, "
        "Manager.Handle, Public) over <= 2/3 handles; 5 fault classes must each violate the invariant stating the clause. (R) every maximal path of "
        "Plan_Monitoring's flow machine (quick: <= 3 steps, a seeded sample of 10 per family; thorough: <= 4 steps, 350 per family) and every "
        "well-formed keyset of <= 2/3 keys x 3 statuses x 2/4 prefix types (sampled likewise) under 3-4 basic flows, each executed for 11 key "
        "families with real keys (1-4 key types each, a failing stub key as primary in a third of the cases): on every handle every class's "
        "factory, every operation as success / failure (stub failure, nil JWT, absurd PRF length, malformed prehash; inputs by ENABLED keys, by "
        "DISABLED/DESTROYED keys, garbage, short, empty, wrong data, unsatisfiable JWT validator) and 14 accessors; (T) seeded random histories "
        "(60-80 steps) with real keyset.Manager rotation, several handles / primitives alive at once. Every step's recorded client calls must "
        "equal the calls Monitoring.tla delivers for that step")
    ctx.assumptions += [
        "which key did the work of an accepted input is taken from the driver's knowledge of the single key that made the input (keys of a keyset "
        "have distinct key material); that this is the key C05's rule names is C05",
        "key material, ciphertext formats and the keysets a manager reaches are not modelled here (C01-C04, C11)",
        "the failing branch of the producing wrappers is reached with a harness-registered key type whose primitive fails on demand (the wrappers "
        "and adapters are the library's); JWT, PRF and pre-hash signing fail by their own input checks",
        "clauses of Monitoring.tla marked OBSERVATION are not oracles: a deviation stops the run with exit 2 (see `observations`)",
    ]
    ctx.cov["observations"] = OBSERVATIONS
    drv = ctx.go_build("x02")
    if ctx.replay:
        obj = json.load(open(ctx.replay))
        f = os.path.join(ctx.scratch, "replay.scn")
        open(f, "w").write(json.dumps(obj["scenario"]) + "\n")
        files, _ = run_driver(ctx, drv, [["-scenarios", f]], "replay")
        merged, lines = merge(ctx, files, "replay")
        for m in validate(ctx, merged, lines, "replay"):
            if m["bad"][0].startswith("DOC:"):
                ctx.violation("replay", "%s (spec: %s)" % (m["bad"][0], m["bad"][1:]), dict(scenario=obj["scenario"], event=m["event"], spec_says=m["bad"]))
            else:
                raise vlib.Infra("replay: %s" % m["bad"])
        return
    # ---------------------------------------------------------------- (M)
    model_stage(ctx)
    # ---------------------------------------------------------------- (R) cases from TLC
    flows_f = os.path.join(ctx.scratch, "flows.ndjson")
    sets_f = os.path.join(ctx.scratch, "keysets.ndjson")
    r = ctx.tlc("Plan_Monitoring", "Plan_Monitoring" if ctx.thorough else "Plan_Monitoring_quick", workers=1, heap="4g", timeout=3600,
                env=dict(VERIF_FLOWS=flows_f, VERIF_KEYSETS=sets_f))
    if not r.ok or not os.path.exists(flows_f) or not os.path.exists(sets_f):
        raise vlib.Infra("Plan_Monitoring: %s" % (r.error or r.summary()))
    allflows, maximal, n_paths = load_flows(flows_f)
    keysets = sorted((json.loads(x)["ks"] for x in open(sets_f) if x.strip()), key=lambda k: json.dumps(k, sort_keys=True))
    cases = build_cases(ctx, maximal, keysets)
    ctx.stage("R:plan", flow_paths_in_model=n_paths, maximal_paths=len(maximal), keysets_in_model=len(keysets), cases_executed=len(cases))
    ctx.log("plan: %d flow paths (%d maximal), %d keysets in the model; %d cases executed" % (n_paths, len(maximal), len(keysets), len(cases)))
    procs = 10
    jobs = []
    for i in range(procs):
        f = os.path.join(ctx.scratch, "cases.%d.ndjson" % i)
        open(f, "w").write("".join(json.dumps(c) + "\n" for c in cases[i::procs]))
        jobs.append(["-cases", f])
    files, t = run_driver(ctx, drv, jobs, "plan")
    ctx.stage("R:driver", **t)
    ctx.log("driver (plan):", t)
    merged1, lines1 = merge(ctx, files, "plan")
    mism = validate(ctx, merged1, lines1, "R:cases from TLC through the real library")
    report(ctx, mism, lines1, "R")
    ctx.cov["traces_validated_against_impl"] += len(cases)
    # ---------------------------------------------------------------- (T) random histories
    nh = 990 if ctx.thorough else 44
    steps = 80 if ctx.thorough else 60
    jobs = [["-random", str(nh // 11), "-steps", str(steps), "-stream", str(i)] for i in range(11)]
    files, t2 = run_driver(ctx, drv, jobs, "hist")
    ctx.stage("T:driver", histories=(nh // 11) * 11, **t2)
    ctx.log("driver (histories):", t2)
    merged2, lines2 = merge(ctx, files, "hist")
    mism2 = validate(ctx, merged2, lines2, "T:random histories with manager rotation")
    report(ctx, mism2, lines2, "T")
    ctx.cov["traces_validated_against_impl"] += (nh // 11) * 11
    ctx.cov["events"] = len(lines1) + len(lines2)
    if ctx.violations:
        return
    ctx.cov["client_calls_judged"] = coverage(ctx, lines1 + lines2)
    for k in (1, len(lines1) // 3, len(lines1) // 2, len(lines2) // 2):
        e = json.loads((lines1 + lines2)[k])
        e.pop("step", None)
        ctx.sample(e)
    ctx.negative_control(TRACE, merged1, corrupt, reset="reset", stage="NC:plan cases")
    ctx.negative_control(TRACE, merged2, corrupt, reset="reset", stage="NC:histories")


MANIFEST = dict(
    category="model_checking",
    text=("Monitoring.tla states tink-go's monitoring contract as a state machine over handles (annotated or not), managers, primitives and "
          "the registered monitoring client: which Context each factory passes (table per primitive class), one NewLogger per API function at "
          "construction, exactly one Log(key that did the work, input size) per successful call, exactly one LogFailure per failed call, never "
          "both, nothing without annotations, LogKeyExport for Entry.Key()/KeysetMaterial and not for internal accesses, Public() or Write*, "
          "and how annotations travel (Read options, SetAnnotations, Public, NewManagerFromHandle). TLC checks the mechanism against the "
          "contract invariants on every bounded interleaving and shows that five fault classes break them; TLC-written flows and keysets are "
          "executed with real keys for 15 primitive classes with a recording client, together with random rotation histories, and TLC replays "
          "every recorded step through the model and requires the recorded client calls to equal the model's."),
    note=("Growth check (not one of the 20 listed properties). Undocumented behaviour (names, order and number of NewLogger calls, which "
          "entries a context lists, annotation propagation, numBytes of verify/JWT) is carried as OBSERVATION: deviations are exit 2. Hook: "
          "testing/verifhooks.RegisterMonitoringClient (C05's)."),
    technique="TLA+ state machine + contract invariants + TLC exhaustive model checking with fault classes + TLC-generated cases replayed "
              "into the real library + TLC trace validation (recorded client calls = model's), negative control",
    design_ref="DESIGN.md section 8 (growth), GROWTH_BRIEF.md",
)
