"""X01 (growth) - JWK Set export / import as a decision procedure.

spec/sys/JWKSet.tla states what jwt.JWKSetFromPublicKeysetHandle has to WRITE for a keyset and what
jwt.JWKSetToPublicKeysetHandle has to ANSWER for a JWK Set (and which key every accepted JWK stands for), from
the godoc of both functions and RFC 7517 / 7518; everything those sources leave open is stated as AS BUILT.

(S) gate: Self_JWKSet (RFC example keys, the 36 JWK Sets of Wycheproof's json_web_key_test.json by the documented rule);
(M) TLC checks the round-trip theorems on toy curves / moduli (MC_JWKSet);
(R) TLC enumerates JWK member combinations and abstract keysets (Plan_JWKSet over JWKSetCases); the Go driver
    harness/cmd/x01 instantiates them with real key material, renders the JSON text with its own renderer, calls the
    real converter and records; for export it parses the produced text with its own parser, feeds it back to the
    importer and lets every key sign a token for the imported keyset;
(T) Trace_JWKSet judges every recorded call (it recomputes the instantiation and the text first).

Verdict classes: a contradiction of a documented rule is a violation; a deviation from an as-built choice or a
coverage expectation is "model out of date" (exit 2); the as-built choices the run exercised are listed in the
evidence as observations."""
import collections
import concurrent.futures as cf
import glob
import json
import os

import vlib

IMPORT_BLOCKS = ["basic", "meta", "usage", "ec", "eczero", "rsa", "private", "set", "mix"]

KNOWN_RESPLIT = "X01 jwk.import/EC coordinate lengths resplit"
KNOWN_LEADZERO = "X01 jwk.export/RSA modulus leading zero"

# the choices of the code that neither the godoc nor the RFCs fix (spec: AS BUILT); reported, never judged
OBSERVATIONS = [
    "import: the LAST JWK of the set becomes the primary key (nothing documents which one does)",
    "import/export: PS256, PS384, PS512 are converted although the godoc of both functions lists only ES* and RS*",
    "import: ONE refused JWK refuses the whole set (RFC 7517 s.5: implementations SHOULD ignore such keys); "
    "\"keys\": [] is refused",
    "import: key_ops must be exactly [\"verify\"] (a list that also names other operations is refused)",
    "import: base64url with '=' padding is refused, with non-zero trailing bits it is accepted; duplicate member names "
    "are refused by the JSON parser (RFC 7517 s.4 allows that)",
    "import: n and e are taken as they come (leading zero octets are kept in the key object), n is not examined beyond "
    "its bit length (an even n passes), the RSA member \"oth\" is not among the refused private members",
    "import: any odd e with 65537 <= e <= 2^31-1 is accepted, but jwt.NewVerifier then refuses the imported keyset "
    "(\"the key manager should not be used to obtain a new primitive\") - e.g. {\"kty\":\"RSA\",\"alg\":\"RS256\",\"n\":<2048 bit>,\"e\":\"AQAD\"}",
    "export: both use (\"sig\") and key_ops ([\"verify\"]) are written (RFC 7517 s.4.3: SHOULD NOT be used together)",
    "export: keys that are not ENABLED are skipped before their type is looked at, so a DISABLED / DESTROYED private or "
    "unsupported key does not make the export fail",
    "export -> import: a key whose kid is derived from its id comes back as a key with that string as CUSTOM kid, which "
    "also accepts tokens WITHOUT kid header (a JWK cannot say that the kid is required)",
]


def gen_plans(ctx, only=None):
    """Plan_JWKSet, one TLC run per block (in parallel); returns (import plan path, export plan path, counts)."""
    blocks = [b for b in IMPORT_BLOCKS + ["export"] if not only or b in only]
    outs = {b: os.path.join(ctx.scratch, "plan.%s.ndjson" % b) for b in blocks}

    def work(b):
        r = ctx.tlc("Plan_JWKSet", env={"VERIF_OUT": outs[b], "VERIF_BLK": b, "VERIF_MIX": 80000 if ctx.thorough else 2000},
                    workers=1, heap="4g", timeout=1500, extra=["-seed", str(ctx.seed)])
        if not r.ok:
            raise vlib.Infra("Plan_JWKSet block %s: %s" % (b, r.error or r.summary()))
        return b

    with cf.ThreadPoolExecutor(max_workers=5) as ex:
        list(ex.map(work, blocks))
    counts = {}
    imp = os.path.join(ctx.scratch, "plan.import.ndjson")
    with open(imp, "w") as f:
        for b in blocks:
            if b == "export":
                continue
            n = 0
            for line in open(outs[b]):
                if line.strip():
                    f.write(line)
                    n += 1
            counts[b] = n
            os.remove(outs[b])
    exp = outs.get("export")
    if exp:
        counts["export"] = sum(1 for x in open(exp) if x.strip())
    return imp, exp, counts


def _b64len(v):
    """octets a base64url string value of an event tree stands for (None when it is not such a string)"""
    if not isinstance(v, dict) or v.get("k") != "str":
        return None
    s = bytes.fromhex(v["h"])
    return len(s) * 6 // 8


def _member(obj, name):
    for m in obj.get("m", []):
        if m["n"] == name:
            return m["v"]
    return None


def signature(m):
    """call site + input class; the two reported discrepancies get the signatures of KNOWN_FINDINGS.json"""
    e, bad = m["event"], m["bad"]
    if e["ev"] == "import":
        if bad[0].startswith("accepted a JWK set") and bad[1] == '{"coordinate length"}' and not e["err"]:
            # only the re-split: the octets of x || y are those of a full-size point, cut at another place
            try:
                keys = _member(e["tree"], "keys")["l"]
                size = {"P-256": 32, "P-384": 48, "P-521": 66}
                ok = all(_b64len(_member(j, "x")) + _b64len(_member(j, "y")) == 2 * size[bytes.fromhex(_member(j, "crv")["h"]).decode()]
                         for j in keys)
            except Exception:
                ok = False
            if ok:
                return KNOWN_RESPLIT
        return "X01 jwk.import/%s %s: %s" % (e["blk"].split(":")[0], bad[0], bad[1])
    if e["ev"] == "export":
        if bad[0].startswith("the exported JWKs are not") and bad[1] == "member n" and \
                any(k["n"].startswith("00") for k in e["ks"] if k["status"] == "ENABLED"):
            return KNOWN_LEADZERO
        return "X01 jwk.export/%s %s: %s" % (e["blk"], bad[0], bad[1])
    return "X01 jwk.roundtrip/%s %s" % (e.get("blk"), bad[0])


def judge(ctx, trace, stage, stats=True):
    env = {"VERIF_STATS": "1"} if stats else {}
    n0 = sum(1 for x in open(trace) if x.strip())
    mism, n = ctx.validate_events("Trace_JWKSet", trace, env=env, stage=stage, shards=max(2, min(16, n0 // 600)), max_findings=8)
    inst = [m for m in mism if m["bad"][0].split(":")[0] == "INSTANTIATION" or m["bad"][0].startswith("unknown event")]
    expect = [m for m in mism if m["bad"][0].split(":")[0] == "EXPECTATION"]
    real = [m for m in mism if m not in inst and m not in expect]

    def brief(m):
        e = dict(m["event"])
        for k in ("mat", "plan", "tree"):
            e.pop(k, None)
        return "%s: %s" % (m["bad"], json.dumps(e)[:1800])

    if inst:
        raise vlib.Infra("driver/plan inconsistency (%d events), e.g. %s" % (len(inst), brief(inst[0])))
    if expect and not [m for m in real if signature(m) not in (KNOWN_RESPLIT, KNOWN_LEADZERO)]:
        # only as-built choices / coverage expectations differ: the model is out of date, no verdict
        raise vlib.Infra("as-built choice or coverage expectation no longer holds - model out of date (%d events), e.g. %s"
                         % (len(expect), brief(expect[0])))
    if expect:    # next to contradictions of documented rules: those are the verdict, the rest is noted
        ctx.log("NOTE: %d events also deviate from as-built choices, e.g. %s" % (len(expect), brief(expect[0])[:600]))
        ctx.stage(stage, expectation_mismatches=len(expect))
    mism = real
    for m in mism:
        e = m["event"]
        what = "%s (spec: %s)" % (m["bad"][0], m["bad"][1:])
        if e["ev"] == "import":
            what += "; text: " + bytes.fromhex(e["text"]).decode("latin1")[:400]
        ctx.violation(signature(m), what, dict(event=e, spec_says=m["bad"]))
    return mism, n


def read_stats(ctx):
    c = collections.Counter()
    reasons = collections.Counter()
    for p in glob.glob(os.path.join(ctx.scratch, "*.stats")):
        seen = {}
        for line in open(p):
            line = line.strip()
            if line:
                d = json.loads(json.loads(line))
                seen[d["i"]] = d["s"]       # TLC re-evaluates Next when it reconstructs an error trace: one line per position
        for d in seen.values():
            c[(d["ev"], d["src"], d["verdict"])] += 1
            if d["blk"] == "mix":
                c[("import", "mix", d["verdict"])] += 1
            for r in d["gf"]:
                reasons["refused as built: " + r] += 1
            for r in d["gp"]:
                reasons["accepted as built: " + r] += 1
            for r in d["doc"]:
                reasons["documented refusal: " + r] += 1
        os.remove(p)
    return c, reasons


def corrupt(ev, rng):
    ev = json.loads(json.dumps(ev))
    if ev["ev"] == "import" and ev["src"] == "plan":
        if ev["err"]:
            return None
        k = ev["keys"][rng.randrange(len(ev["keys"]))]
        what = rng.choice(["err", "alg", "kid", "material"])
        if what == "err":
            ev["err"], ev["keys"] = True, []
        elif what == "alg":
            k["alg"] = {"ES256": "ES384", "ES384": "ES512", "ES512": "ES256", "RS256": "PS256", "PS256": "RS256"}.get(k["alg"], "RS256")
        elif what == "kid":
            k["kid"], k["hasKid"], k["strat"] = "6b", True, "CUSTOM"
        else:
            f = "x" if k["type"] == "EC" else "n"
            k[f] = k[f][:-2] + ("00" if k[f][-2:] != "00" else "01")
        ev["_corrupted"] = "import." + what
        return ev
    if ev["ev"] == "export" and not ev["err"] and ev["parseOK"]:
        keys = _member(ev["tree"], "keys")["l"]
        j = keys[rng.randrange(len(keys))]
        what = rng.choice(["kid", "drop", "alg"])
        if what == "kid":
            kid = _member(j, "kid")
            if kid is None:
                j["m"].append({"n": "kid", "v": {"k": "str", "h": "6b"}})
            else:
                j["m"] = [m for m in j["m"] if m["n"] != "kid"]
        elif what == "drop":
            keys.remove(j)
        else:
            _member(j, "alg")["h"] = "4553323537"
        ev["_corrupted"] = "export." + what
        return ev
    if ev["ev"] == "verify" and not ev["signErr"] and not ev["importErr"] and not ev["verifierErr"]:
        ev["ok"] = not ev["ok"]
        ev["_corrupted"] = "verify.ok"
        return ev
    return None


def wycheproof_file():
    c = sorted(glob.glob("/root/go/pkg/mod/github.com/c2sp/wycheproof@*/testvectors_v1/json_web_key_test.json"))
    if not c:
        raise vlib.Infra("wycheproof json_web_key_test.json not found in the module cache")
    return c[-1]


def run(ctx):
    ctx.cov["rule"] = ("import cases = TLC's enumeration of JWKSetCases: per block the full product of the member values the block "
                       "is about (meta: kty x alg x crv x which key material is present; usage: use x key_ops x kid; ec: x x y x d "
                       "classes incl. one octet short / long, re-split, off curve, base64url variants; rsa: n x e classes incl. "
                       "1024 / 2047 / 2048 / 3072 bits, leading zero, e around 65537 and 2^31; private: every subset of d, p, q, dp, dq, "
                       "qi, oth, k; set: shapes of the text, of the keys member, several keys, duplicate / unknown members; mix: seeded random "
                       "combinations across the blocks, 1..3 keys per set) with the "
                       "other members at a passing value and at a failing one; export cases = abstract keysets: every algorithm x kid "
                       "strategy x key id / custom kid x public / private, status mixes of 2 and 3 keys x strategies x primary, foreign "
                       "key types x status, special RSA keys; each instantiated by the driver with fresh key material, judged by TLC "
                       "against JWKSet!JwkImport / JwkExportKeys after re-deriving the instantiation and the text")
    ctx.assumptions += ["JSON parsing is not modelled: the JSON value of a text the driver MADE is known (text = JWKJson!JShapeText "
                        "of the value, recomputed by TLC); the value of a text the converter made is the driver's own parse "
                        "(token stream of encoding/json, member order and duplicates kept)",
                        "point-on-curve is decided by the JDK binding of the primitive layer (Prim!ECPointValid)",
                        "key material is made with Go's standard library (crypto/ecdsa, crypto/rsa), never with Tink; foreign key "
                        "types (HMAC, ML-DSA, Ed25519, ECDSA signature keys) are generated by Tink and are inputs only"]
    ctx.cov["observations"] = list(OBSERVATIONS)
    drv = ctx.go_build("x01")
    trace = os.path.join(ctx.scratch, "x01.ndjson")
    if ctx.replay:
        ctx.run([drv, "-out", trace, "-replay", ctx.replay])
        mism, n = judge(ctx, trace, "T:replay", stats=False)
        ctx.sample(dict(replayed_events=n, mismatches=len(mism)))
        return
    only = os.environ.get("X01_ONLY")      # mutation trials / debugging: some blocks of the plan, no (S) / (M) stage
    only = only.split(",") if only else None
    if only:
        ctx.log("NOTE: X01_ONLY=%s: restricted run for mutation trials / debugging (not evidence)" % only)
    else:
        # ---------------- (S) gate of the reference
        cfg = os.path.join(ctx.scratch, "Self_JWKSet.cfg")
        open(cfg, "w").write("INIT Init\nNEXT Next\nCHECK_DEADLOCK FALSE\n")
        r = ctx.tlc(ctx._find("Self_JWKSet.tla"), cfg, workers=1)
        if not r.ok:
            raise vlib.Infra("gate Self_JWKSet failed: %s" % (r.error or r.summary()))
        ctx.stage("S:Self_JWKSet (RFC 7517 A.1, RFC 7515 A.3 keys, 36 Wycheproof JWK Sets)", ok=True)
        # ---------------- (M) round-trip theorems on toy sizes
        ctx.model_check("MC_JWKSet", stage="M:round-trip theorems (toy curves and moduli)", must_cover=False,
                        workers=4 if ctx.thorough else 2, heap="8g", timeout=3000)
    # ---------------- (R) plans -> real code
    imp, exp, counts = gen_plans(ctx, only)
    ctx.stage("R:plan", **counts)
    ctx.log("plan: %s" % counts)
    argv = [drv, "-out", trace, "-import", imp]
    if exp:
        argv += ["-export", exp]
    if not only:
        argv += ["-wycheproof", wycheproof_file()]
    r = ctx.run(argv, timeout=3000)
    ctx.log(r.stdout.strip())
    # ---------------- (T)
    mism, n = judge(ctx, trace, "T:import / export / verify events")
    ctx.cov["traces_validated_against_impl"] += 1
    ctx.cov["events"] = n
    classes, reasons = read_stats(ctx)
    ctx.stage("T:classes", **{"%s/%s/%s" % k: v for k, v in sorted(classes.items())})
    ctx.cov["observed_reasons"] = dict(sorted(reasons.items()))
    if not only:
        have = {k[2] for k in classes if k[0] == "import" and k[1] == "plan"}
        if have != {"reject", "reject*", "accept*", "accept"}:
            raise vlib.Infra("coverage hole: import verdicts among the plan cases: %s" % sorted(have))
        for need in [("import", "mix", "accept"), ("import", "mix", "accept*"), ("import", "mix", "reject*"), ("import", "export", "accept"), ("import", "wycheproof", "reject"), ("export", "plan", "refused"),
                     ("export", "plan", "exported"), ("export", "plan", "exported*"), ("verify", "plan", "verified"),
                     ("verify", "plan", "not verified")]:
            if not classes.get(need):
                raise vlib.Infra("coverage hole: no %s events" % "/".join(need))
    lines = open(trace).read().splitlines()
    for k in (3, len(lines) // 5, len(lines) // 2, len(lines) - 7):
        e = json.loads(lines[max(0, min(len(lines) - 1, k))])
        if e["ev"] == "import":
            ctx.sample(dict(ev="import", blk=e["blk"], case=e["lab"], text=bytes.fromhex(e["text"]).decode("latin1"), rejected=e["err"],
                            keys=[{f: k2[f] for f in ("alg", "strat", "kid", "primary")} for k2 in e["keys"]]))
        else:
            ctx.sample(dict(ev=e["ev"], blk=e["blk"], case=e["lab"], keyset=[{f: k2[f] for f in ("kind", "alg", "strat", "id", "status", "priv")} for k2 in e["ks"]],
                            refused=e["err"] if e["ev"] == "export" else None,
                            text=bytes.fromhex(e.get("text", "")).decode("latin1"), verified=e.get("ok")))
    if not [m for m in mism if signature(m) not in (KNOWN_RESPLIT, KNOWN_LEADZERO)]:
        # the window of the negative control must not contain a reported discrepancy
        clean = os.path.join(ctx.scratch, "x01.clean.ndjson")
        skip = {m["index"] for m in mism}
        with open(clean, "w") as f:
            for i, x in enumerate(lines):
                if i not in skip:
                    f.write(x + "\n")
        ctx.negative_control("Trace_JWKSet", clean, corrupt, window=120)


MANIFEST = dict(
    category="model_checking",
    text=("sys/JWKSet.tla states JWK Set export and import as functions of values: Export(keyset) = one JWK per ENABLED key with "
          "kty, crv, x, y (full-size coordinates) / n, e (minimal Base64urlUInt), alg, kid (base64url of the key id for TINK keys, "
          "the custom kid, none for IGNORED), use / key_ops consistent with signature verification, never a private member, refused "
          "for private or unsupported ENABLED keys; Import(text) = a decision procedure with four verdicts (documented refusal / "
          "as-built refusal / as-built leniency / well-formed) over kty, alg, crv, use, key_ops, kid, private members, base64url, "
          "coordinate length and point validity, modulus size, exponent, duplicate and unknown members, the shape of the set and of "
          "the text, and the key each accepted JWK stands for (algorithm, RAW with CUSTOM kid or IGNORED, key octets). The module is "
          "parametric in curve sizes / point validity / minimum modulus: TLC proves the round-trip theorems on toy sizes over every "
          "octet string of length 0..2 and whole member products (MC_JWKSet: Import(Export(ks)) verifies exactly the tokens ks "
          "verifies plus kid-less tokens of TINK keys; Export(Import(j)) ~ j; unknown members ignored; nothing private ever; 17k "
          "states quick / 223k thorough). TLC enumerates 21k [128k thorough] JWK Sets (member products per block + seeded random "
          "mixes of 1..3 keys) and 1.2k [2.6k] abstract keysets; the Go driver instantiates them with real keys, renders "
          "/ parses JSON with its own code, calls the real converter; Trace_JWKSet re-derives instantiation and text and judges "
          "verdict, every projected key, the exported members, and token verification through Import(Export(ks)) of the real code."),
    note=("Growth check (not one of the 20 listed properties). Undocumented choices are as-built parameters of the specification: a "
          "deviation is exit 2, the evidence lists them as observations. JSON parsing is not modelled. Two reported RFC 7518 "
          "discrepancies are known findings (EC coordinates re-split 31/33 octets accepted; modulus with a leading zero octet "
          "exported as non-minimal n)."),
    technique=("TLA+ decision procedure + TLC model checking of round-trip theorems on toy parameters + TLC-enumerated case plan "
               "replayed into real code + TLC trace validation with recomputed instantiation, negative control"),
    design_ref="DESIGN.md section 8 (JWK set import rules as a decision spec like C09)",
)
