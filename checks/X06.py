"""X06 (growth) - the keyset wire formats as a format specification.

spec/sys/KeysetWire.tla states WHICH octets (protobuf encoding of tink.proto's Keyset / EncryptedKeyset / KeysetInfo)
and WHICH JSON value (ProtoJSON mapping of the same messages) stand for which keyset: Encode_bin / Decode_bin,
Encode_json / Decode_json, written from tink.proto, the godoc of package keyset ("binary proto format", "json format")
and the two protobuf documents those words refer to.  What these leave to an implementation is AS BUILT.

(S) gate: Self_KeysetWire (protobuf encoding guide examples, RFC 4648 vectors, the tinkey-made keyset of the godoc);
(M) MC_KeysetWire: TLC proves on small keysets that Decode(Encode(ks)) = ks in both formats, that every spelling the
    formats allow (field / member order, defaults written or not, padded varints, unknown fields, split messages, the
    ProtoJSON parser alternatives) decodes to the same keyset, that Encode is the shortest spelling, that Decode_bin is
    total on every short octet string, and that the wire parser agrees with C12's KeyFormatWire decoder where both apply;
(R) Plan_KeysetWire: TLC writes abstract keysets, EncryptedKeyset values, and per keyset every spelling as octets / JSON
    values with their text; harness/cmd/x06 gives them to the real BinaryWriter / JSONWriter (directly, through handles
    in cleartext, without secrets, encrypted under an invertible toy AEAD) and to the real readers, and records;
(T) Trace_KeysetWire judges: writer output stands for the keyset (documented) and is THE canonical artifact (as built);
    reader verdict and projection = Decode for inputs inside the documented format and for texts that stand for nothing
    (documented), and for the parser alternatives / open points (as built).

Verdict classes: contradiction of the documented format = violation; deviation from an as-built choice or a coverage
expectation = "model out of date" (exit 2); the as-built choices the run exercised are listed in the evidence."""
import collections
import concurrent.futures as cf
import glob
import json
import os
import re

import vlib

BLOCKS = ["write", "wenc", "rbin", "rsmall", "rjson", "renc", "hread", "rmix"]

# what neither tink.proto, the godoc nor the two protobuf documents fix (spec: AS BUILT); reported, never judged as violations
OBSERVATIONS = [
    "binary writer: fields in field-number order, scalars at their default not written, minimal varints - byte-identical to "
    "Encode_bin (protobuf does not promise a canonical serialization)",
    "BinaryWriter.WriteEncrypted DROPS keyset_info (tink.proto: optional); JSONWriter.WriteEncrypted keeps it",
    "JSON writer: every member is written, also at its default (\"keyId\":0, \"keyData\":null for an absent message, "
    "\"keysetInfo\":null), members in field-number order; white space is not judged (protojson randomizes it)",
    "JSON reader accepts the ProtoJSON parser alternatives: original field names (key_id), enum numbers (also unknown and "
    "negative ones), URL-safe and unpadded base64 (not a mix of both alphabets), key ids as strings, null for any member",
    "JSON reader: unknown members and duplicate members (also lowerCamelCase + original name of one field) refuse the keyset; "
    "null as an element of \"key\" refuses it",
    "JSON reader: key ids in other number forms are accepted when integral (1.0, 1e2, 100e-2, \"1.0\"), -0 is accepted as 0; "
    "non-zero trailing bits in base64 are accepted",
    "binary reader: a known field number with another wire type is skipped like an unknown field; groups are skipped; a "
    "type_url that is not UTF-8 refuses the keyset; varints wider than 32 bits are truncated",
    "readers ignore keyset_info when a handle is read from an EncryptedKeyset (a wrong keyset_info is not noticed)",
]


def gen_plan(ctx, only=None):
    blocks = [b for b in BLOCKS if not only or b in only]
    outs = {b: os.path.join(ctx.scratch, "plan.%s.ndjson" % b) for b in blocks}

    def work(b):
        r = ctx.tlc("Plan_KeysetWire", env={"VERIF_OUT": outs[b], "VERIF_BLK": b, "VERIF_THOROUGH": "1" if ctx.thorough else "0",
                                            "VERIF_MIX": 40000 if ctx.thorough else 1200},
                    workers=1, heap="6g", timeout=1500, extra=["-seed", str(ctx.seed)])
        if not r.ok:
            raise vlib.Infra("Plan_KeysetWire block %s: %s" % (b, r.error or r.summary()))
        return b

    with cf.ThreadPoolExecutor(max_workers=4) as ex:
        list(ex.map(work, blocks))
    plan = os.path.join(ctx.scratch, "plan.ndjson")
    counts = {}
    with open(plan, "w") as f:
        for b in blocks:
            n = 0
            for line in open(outs[b]):
                if line.strip():
                    f.write(line)
                    n += 1
            counts[b] = n
            os.remove(outs[b])
    return plan, counts


KNOWN_EMPTY_EXPONENT = "X06 keyset.JSONReader/number with empty exponent"


def signature(m):
    e, bad = m["event"], m["bad"]
    if e["ev"] in ("read", "hread") and e.get("fmt") == "json" and not e["err"] and e.get("shape") in ("object", "ws") \
            and bad[0].startswith("the reader accepted an input that stands for no value") and bad[1] == "json":
        # the ONLY thing wrong with the text: number tokens "<digits>e" without exponent digits
        text = bytes.fromhex(e["text"]).decode("latin1")
        if re.search(r"[0-9][eE]\s*[,}\]]", text):
            try:
                json.loads(re.sub(r"([0-9])[eE](\s*[,}\]])", r"\1\2", text))
                return KNOWN_EMPTY_EXPONENT
            except ValueError:
                pass
    site = {"write": "write/%s/%s" % (e.get("fmt"), e.get("mode")), "wenc": "WriteEncrypted/%s" % e.get("fmt"),
            "read": "%s/%s" % (e.get("api"), e.get("fmt")), "hread": "handle-read/%s/%s" % (e.get("fmt"), "encrypted" if e.get("enc") else "cleartext"),
            "handle": "handle"}.get(e["ev"], e["ev"])
    return "X06 keyset.%s/%s %s" % (site, e.get("lab"), bad[0][:90])


def brief(m):
    e = dict(m["event"])
    for k in ("tree",):
        e.pop(k, None)
    if e.get("text"):
        e["text"] = bytes.fromhex(e["text"]).decode("latin1")[:600]
    return "%s: %s" % (m["bad"], json.dumps(e)[:1600])


MAX_FINDINGS = 8     # per shard: a shard that reports that many stops there (the rest of it is not judged)


def judge(ctx, trace, stage, stats=True):
    env = {"VERIF_STATS": "1"} if stats else {}
    n0 = sum(1 for x in open(trace) if x.strip())
    mism, n = ctx.validate_events("Trace_KeysetWire", trace, env=env, stage=stage, shards=max(2, min(16, n0 // 700)), max_findings=MAX_FINDINGS)
    inst = [m for m in mism if m["bad"][0].startswith("INSTANTIATION") or m["bad"][0].startswith("unknown event")]
    expect = [m for m in mism if m["bad"][0].startswith("EXPECTATION")]
    real = [m for m in mism if m not in inst and m not in expect]
    if os.environ.get("X06_DEBUG"):
        for m in mism:
            ctx.log("MISMATCH", brief(m))
    if len(mism) >= MAX_FINDINGS and not [m for m in real if signature(m) != KNOWN_EMPTY_EXPONENT]:
        raise vlib.Infra("%d mismatches without a verdict: a shard may have stopped early, the validation is incomplete; e.g. %s" % (len(mism), brief(mism[0])))
    if inst:
        raise vlib.Infra("driver/plan inconsistency (%d events), e.g. %s" % (len(inst), brief(inst[0])))
    if expect and not [m for m in real if signature(m) != KNOWN_EMPTY_EXPONENT]:
        # only as-built choices / coverage expectations differ (next to the known finding): the model is out of date, no verdict
        raise vlib.Infra("as-built choice or coverage expectation no longer holds - model out of date (%d events), e.g. %s"
                         % (len(expect), brief(expect[0])))
    if expect:
        ctx.log("NOTE: %d events also deviate from as-built choices, e.g. %s" % (len(expect), brief(expect[0])[:600]))
        ctx.stage(stage, expectation_mismatches=len(expect))
    for m in real:
        e = m["event"]
        what = "%s (spec: %s)" % (m["bad"][0], m["bad"][1:])
        if e.get("text"):
            what += "; text: " + bytes.fromhex(e["text"]).decode("latin1")[:300]
        elif e.get("in"):
            what += "; octets: " + e["in"][:200]
        ctx.violation(signature(m), what, dict(event=e, spec_says=m["bad"]))
    return real, n


def read_stats(ctx):
    classes = collections.Counter()
    used = collections.Counter()
    for p in glob.glob(os.path.join(ctx.scratch, "*.stats")):
        seen = {}
        for line in open(p):
            line = line.strip()
            if line:
                d = json.loads(json.loads(line))
                seen[d["i"]] = d["s"]
        for d in seen.values():
            classes[(d["ev"], d["fmt"], d["class"])] += 1
            if d["ev"] in ("read", "hread"):
                for x in d["notes"]:
                    used["%s accepted using: %s" % (d["fmt"], x)] += 0 if d["err"] else 1
                if d["why"]:
                    used["%s %s: %s" % (d["fmt"], "refused" if d["err"] else "ACCEPTED", d["why"])] += 1
        os.remove(p)
    return classes, used


def corrupt(ev, rng):
    ev = json.loads(json.dumps(ev))
    if ev["ev"] == "write" and not ev["err"] and ev["mode"] in ("raw", "clear", "nosecrets") and ev["ks"]["keys"]:
        k = ev["ks"]["keys"][rng.randrange(len(ev["ks"]["keys"]))]
        what = rng.choice(["id", "status", "prefix", "primary"])
        if what == "id":
            k["id"] = "%08x" % ((int(k["id"], 16) + 1) % (1 << 32))
        elif what == "status":
            k["status"] = (k["status"] + 1) % 4
        elif what == "prefix":
            k["prefix"] = (k["prefix"] + 1) % 5
        else:
            ev["ks"]["primary"] = "%08x" % ((int(ev["ks"]["primary"], 16) + 1) % (1 << 32))
        ev["_corrupted"] = "write.ks." + what
        return ev
    if ev["ev"] == "read" and ev["api"] == "Read" and not ev["err"] and ev["ks"]["keys"]:
        k = ev["ks"]["keys"][rng.randrange(len(ev["ks"]["keys"]))]
        what = rng.choice(["id", "status", "err"])
        if what == "id":
            k["id"] = "%08x" % ((int(k["id"], 16) + 1) % (1 << 32))
        elif what == "status":
            k["status"] = k["status"] + 1
        else:
            ev["err"] = True
        ev["_corrupted"] = "read." + what
        return ev
    if ev["ev"] == "read" and ev["err"] and not ev["panic"] and ev["lab"] in ("cut", "malformed", "keyId", "primaryKeyId"):
        ev["err"] = False
        ev["_corrupted"] = "read.err"
        return ev
    return None


def run(ctx):
    ctx.cov["rule"] = ("write cases = TLC's enumeration of KeysetWireCases: one-key keysets over key id (0, 1, 127, 128, 2^14, 2^31-1, 2^31, 2^32-1) x "
                       "primary (same / 0 / other), status x prefix type x key material type (every defined number, an unknown one, -1), type URL x value "
                       "(empty, short, 2/3/4/20 octets, no key data), every sequence of 2 [3] keys out of 5 x primary, empty keysets, real key types "
                       "(AES-GCM, Ed25519 public, the tinkey-made HMAC keyset of the godoc); each written by the real BinaryWriter / JSONWriter directly, "
                       "through a handle (cleartext, without secrets, encrypted with and without associated data under an invertible toy AEAD). read cases = "
                       "per read keyset every spelling: canonical, defaults written, varints padded by 1/3/9 groups, every field order per level, 10 unknown "
                       "fields (all wire types, groups, number 2^29-1) first / last per level, scalars twice, key_data split at every point, wide varints, "
                       "wrong wire types, (in)valid UTF-8, every cut point, 20 malformed pieces in 4 places; every octet string of length 0..3 [0..5] over 12 "
                       "meaningful octets; JSON: 6 text shapes, defaults left out, all 128 combinations of the parser alternatives, every member order per level, "
                       "37 key id values, 23 enum values, 34 base64 values, wrong kinds, unknown / duplicate members per level; the same for EncryptedKeyset; "
                       "handle-level reads of sealed spellings with every KeysetInfo")
    ctx.assumptions += ["JSON parsing is not modelled: the value of a text the plan MADE is known (text = JWKJson!JShapeText of the value, recomputed by "
                        "TLC); the value of a text a real writer made is the driver's own parse (token stream of encoding/json, member order and "
                        "duplicates kept); white space of writer output is therefore not judged",
                        "the key-encryption AEAD is an invertible framing of the harness (magic || len(ad) || ad || plaintext), so that the "
                        "specification can look inside what Handle.Write produced; real AEADs are C01's subject",
                        "short type URLs have no registered key type (fallback proto keys): handles keep their KeyData verbatim"]
    ctx.cov["observations"] = list(OBSERVATIONS)
    drv = ctx.go_build("x06")
    trace = os.path.join(ctx.scratch, "x06.ndjson")
    if ctx.replay:
        ctx.run([drv, "-out", trace, "-replay", ctx.replay])
        real, n = judge(ctx, trace, "T:replay", stats=False)
        ctx.sample(dict(replayed_events=n, mismatches=len(real)))
        return
    only = os.environ.get("X06_ONLY")      # mutation trials / debugging: some blocks of the plan, no (S) / (M) stage
    only = only.split(",") if only else None
    if only:
        ctx.log("NOTE: X06_ONLY=%s: restricted run for mutation trials / debugging (not evidence)" % only)
    else:
        # ---------------- (S) gate of the reference
        cfg = os.path.join(ctx.scratch, "Self_KeysetWire.cfg")
        open(cfg, "w").write("INIT Init\nNEXT Next\nCHECK_DEADLOCK FALSE\n")
        r = ctx.tlc(ctx._find("Self_KeysetWire.tla"), cfg, workers=1)
        if not r.ok:
            raise vlib.Infra("gate Self_KeysetWire failed: %s" % (r.error or r.summary()))
        ctx.stage("S:Self_KeysetWire (protobuf encoding guide, RFC 4648, godoc keyset made by tinkey)", ok=True)
        # ---------------- (M) theorems of the format on small keysets
        ctx.model_check("MC_KeysetWire", "MC_KeysetWire" if ctx.thorough else "MC_KeysetWire_quick",
                        stage="M:format theorems (round trips, spellings, shortest form, totality)", must_cover=False,
                        workers=4 if ctx.thorough else 2, heap="8g", timeout=3000)
    # ---------------- (R) plan -> real code
    plan, counts = gen_plan(ctx, only)
    ctx.stage("R:plan", **counts)
    ctx.log("plan: %s" % counts)
    r = ctx.run([drv, "-out", trace, "-plan", plan], timeout=3000)
    ctx.log(r.stdout.strip())
    # ---------------- (T)
    real, n = judge(ctx, trace, "T:write / read events")
    ctx.cov["traces_validated_against_impl"] += 1
    ctx.cov["events"] = n
    classes, used = read_stats(ctx)
    ctx.stage("T:classes", **{"%s/%s/%s" % k: v for k, v in sorted(classes.items())})
    if sum(classes.values()) != n and not [m for m in real if signature(m) != KNOWN_EMPTY_EXPONENT]:
        raise vlib.Infra("only %d of %d events were judged (a shard stopped early)" % (sum(classes.values()), n))
    ctx.cov["observed"] = dict(sorted(used.items()))
    if not only:
        for need in [("read", "bin", "accept"), ("read", "bin", "accept*"), ("read", "bin", "reject"), ("read", "bin", "reject*"),
                     ("read", "json", "accept"), ("read", "json", "accept*"), ("read", "json", "reject"), ("read", "json", "reject*"),
                     ("hread", "bin", "accept"), ("hread", "json", "accept"), ("hread", "json", "accept*"), ("hread", "bin", "reject"),
                     ("write", "bin", "raw"), ("write", "json", "raw"), ("write", "bin", "clear"), ("write", "json", "clear"),
                     ("write", "bin", "nosecrets"), ("write", "json", "nosecrets"), ("write", "bin", "refuse"), ("write", "bin", "enc"),
                     ("write", "json", "enc"), ("write", "bin", "encad"), ("write", "json", "encad"), ("wenc", "bin", "wenc"), ("wenc", "json", "wenc")]:
            if not classes.get(need):
                raise vlib.Infra("coverage hole: no %s events" % "/".join(need))
    lines = open(trace).read().splitlines()
    for k in (3, len(lines) // 5, len(lines) // 2, len(lines) - 7):
        e = json.loads(lines[max(0, min(len(lines) - 1, k))])
        e.pop("tree", None)
        if e.get("text"):
            e["text"] = bytes.fromhex(e["text"]).decode("latin1")
        ctx.sample(e)
    if not [m for m in real if signature(m) != KNOWN_EMPTY_EXPONENT]:
        ctx.negative_control("Trace_KeysetWire", trace, corrupt, window=120)


MANIFEST = dict(
    category="model_checking",
    text=("sys/KeysetWire.tla states the two keyset wire formats as functions of values. Binary: varints as groups of 7 bits (64-bit values, "
          "truncation to 32 bits, at most 10 octets), wire fields (types 0/1/2/5, groups), tink.proto's field numbers and enum numbers for "
          "Keyset, Keyset.Key, KeyData, EncryptedKeyset, KeysetInfo, KeysetInfo.KeyInfo; Encode_bin = fields in number order, proto3 default "
          "elision, minimal varints; Decode_bin = the proto3 parsing rule (any field order, last scalar wins, repeated order kept, message "
          "pieces merged, unknown fields skipped, non-minimal varints, UTF-8 type_url). JSON: the ProtoJSON mapping (lowerCamelCase names, "
          "enum names, padded standard base64 of RFC 4648, key ids as decimal numbers of 32 bits computed on octets); Decode_json also states "
          "the parser alternatives (original names, enum numbers, URL-safe / unpadded base64, ids as strings, null, number forms) and names "
          "each one it used. TLC proves on small keysets (MC_KeysetWire): Decode(Encode(ks)) = ks in both formats, every permitted spelling "
          "decodes to the same keyset, Encode is the shortest spelling, Decode_bin is total on all short octet strings and agrees with C12's "
          "KeyFormatWire decoder. TLC writes ~9k [~45k] cases (keysets for the writers; per keyset every spelling, every cut point, malformed "
          "pieces, all short octet strings, JSON value alternatives per member) which the real BinaryWriter/JSONWriter/readers execute; "
          "Trace_KeysetWire judges writer output (stands for the keyset, spelled canonically; inside an EncryptedKeyset through an invertible "
          "toy AEAD; keyset_info = copy of the keyset's fields) and reader verdict + projection = Decode."),
    note=("Growth check (not one of the 20 listed properties). Documented = tink.proto + the protobuf encoding / ProtoJSON documents the godoc's "
          "'binary proto format' / 'json format' refer to; everything these leave open (canonical byte order, emission of defaults, dropping of "
          "keyset_info by the binary writer, unknown / duplicate JSON members, wire-type mismatches, groups) is an as-built parameter: a deviation "
          "is exit 2, the evidence lists them as observations. JSON text parsing is not modelled."),
    technique=("TLA+ format specification (encoder + decoder, both formats) + TLC model checking of round-trip / spelling / totality theorems + "
               "TLC-enumerated case plan replayed into real writers and readers + TLC trace validation, negative control"),
    design_ref="DESIGN.md section 8 (growth); complements C12 (round trips) and C14 (invalid keysets)",
)
